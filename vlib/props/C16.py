"""C16 — no out-of-bounds access, uninitialised read or leak for any valid configuration (DESIGN.md §3 C16)."""
import os, subprocess, json, re
from .. import core, build
from ..core import Job

PREBUILD = [("c16", "asan", be) for be in build.BACKENDS] + [("c16", "asan-native", "spqlios-fma"), ("c16", "asan-native", "nayuki-avx"), ("c16", "vg", "spqlios-fma"), ("c16", "vg", "spqlios-avx"), ("c16", "vg", "nayuki-avx")]
ASAN = "detect_leaks=1:abort_on_error=1:handle_abort=0:allocator_may_return_null=1"


def run(tier, seed):
    res = core.Result("C16", tier, seed)
    q = tier == "quick"
    jobs = []
    n = 60 if q else 600
    # (1) lifecycles under AddressSanitizer + LeakSanitizer (each lifecycle in a forked child, leak check at its end), all back-ends
    for i, be in enumerate(build.BACKENDS):
        jobs.append(Job("c16", "asan", be, {"mode": "rc"}, env={"ASAN_OPTIONS": ASAN}, rc_params=core.rc_params(core.splitmix(seed, i), n), label="asan %s" % be))
    for i, be in enumerate(("spqlios-fma", "nayuki-avx")):
        jobs.append(Job("c16", "asan-native", be, {"mode": "rc"}, env={"ASAN_OPTIONS": ASAN}, rc_params=core.rc_params(core.splitmix(seed, 10 + i), n), label="asan-native %s" % be))
    jobs.append(Job("c16", "asan", "spqlios-fma", {"mode": "rc", "big": 1, "maxsteps": 6}, env={"ASAN_OPTIONS": ASAN}, rc_params=core.rc_params(core.splitmix(seed, 20), 12 if q else 60), label="asan big (n>=500, n>N, default sets)", weight=2))
    # (2) uninitialised reads that influence a result: the same seeded lifecycles with two allocation fill bytes must give identical outputs
    pairs = []
    for i, be in enumerate(("spqlios-fma", "fftw") if q else build.BACKENDS):
        pr = []
        for fill in (0, 0xA5):
            j = Job("c16", "asan", be, {"mode": "rc"}, env={"ASAN_OPTIONS": ASAN + ":malloc_fill_byte=%d:max_malloc_fill_size=1073741824" % fill},
                    rc_params=core.rc_params(core.splitmix(seed, 30 + i), n), label="fill-byte %s 0x%02x" % (be, fill))
            jobs.append(j)
            pr.append(j)
        pairs.append(pr)
    # (3) hand-written assembly: valgrind memcheck on the haswell build (sanitizers cannot see .s files / inline asm)
    vg = []
    for i, be in enumerate(("spqlios-fma", "spqlios-avx", "nayuki-avx") if not q else ("spqlios-fma", "nayuki-avx")):
        exe = build.compile_harness("c16", "vg", be)
        vg.append((be, exe))
    core.run_jobs(jobs)
    for j in jobs:
        res.absorb(j)
        for f in res.failures:
            if f.get("crash") and "LeakSanitizer" in (f.get("why") or ""):
                f["sig"] = "c16/leak"
    for pr in pairs:
        a, b = pr
        if a.report and b.report:
            da, db = a.report["extra"].get("digests", []), b.report["extra"].get("digests", [])
            res.extra.setdefault("fill_byte_digests_compared", 0)
            res.extra["fill_byte_digests_compared"] += min(len(da), len(db))
            if da != db and not res.failures:
                k = next((i for i in range(min(len(da), len(db))) if da[i] != db[i]), -1)
                res.failures.append({"check": "c16", "config": a.cfg(), "case": None, "no_replay": True, "sig": "c16/uninitialised",
                                     "why": "outputs (ciphertext / exported bytes) of lifecycle #%d depend on the allocator fill byte: an uninitialised read influences a result (%s vs %s; job %s, RC_PARAMS=%s)" % (k, da[k] if k >= 0 else len(da), db[k] if k >= 0 else len(db), a.label, a.rc_params)})
    # valgrind runs (sequential per backend, in parallel across back-ends)
    import concurrent.futures
    def vgrun(t):
        be, exe = t
        out = os.path.join(build.BUILD_ROOT, "c16-vg-%s.json" % be)
        env = dict(os.environ, RC_PARAMS=core.rc_params(core.splitmix(seed, 60), 3 if q else 12))
        cmd = ["valgrind", "--quiet", "--error-exitcode=99", "--leak-check=full", "--errors-for-leak-kinds=definite", "--show-leak-kinds=definite", "--trace-children=yes", "--child-silent-after-fork=no",
               exe, "--out=" + out, "--mode=rc", "--maxsteps=5"]
        try:
            p = subprocess.run(cmd, stdout=subprocess.PIPE, stderr=subprocess.STDOUT, env=env, timeout=1500 if q else 6000)
            return be, p.returncode, p.stdout.decode("utf-8", "replace")[-3000:], out
        except subprocess.TimeoutExpired:
            return be, None, "timeout", out
    with concurrent.futures.ThreadPoolExecutor(max_workers=4) as ex:
        for be, rc, tail, out in ex.map(vgrun, vg):
            rep = None
            try:
                rep = json.load(open(out))
            except Exception:
                pass
            if rep:
                res.evaluations += rep.get("evaluations", 0)
                res.per_config["vg/%s" % be] = {"evaluations": rep.get("evaluations", 0), "jobs": 1}
            if rc is None:
                res.inconclusive.append({"job": "valgrind %s" % be, "reason": "time budget exhausted"})
            elif rc == 99 or re.search(r"==\d+== (Invalid (read|write)|Conditional jump or move depends on uninit|Use of uninitialised|Syscall param .* uninitialised|.*definitely lost: [1-9])", tail) or (rep and rep.get("failure_count")):
                res.failures.append({"check": "c16", "config": {"build": "vg", "backend": be}, "case": (rep or {}).get("failures", [{}])[-1].get("case") if rep and rep.get("failures") else None,
                                     "no_replay": True, "sig": "c16/valgrind", "why": "valgrind memcheck reports an error on the %s back-end:\n%s" % (be, tail[-1500:])})
            elif rc not in (0, 1):
                res.harness_errors.append("valgrind %s: rc=%s %s" % (be, rc, tail[-500:]))
    res.rule = ("E1 rapidcheck, stateful: configuration (n in {1,3,7,8,9} and 2..24; big: {500,630,1024,1025,1100} and both default sets; k in {1,2}; Bgbit 1..16 with l up to 32/Bgbit; basebit 1..4 with t up to 31/basebit, "
                "bounded by key size) x lifecycle = generated sequence over {encrypt, every gate (new or in-place output, original or re-imported cloud key), four bootstrap variants, ciphertext / cloud / secret / parameter export on "
                "both transports, cloud and secret import, ciphertext arrays, key switch, decrypt, delete ciphertext / imported key set in generated order, thread that evaluates and exits, a second key set of another dimension used alternately with the first on the same thread and then released, a low-level bootstrapping key + FFT key pair released in either order with the survivor still used}; a liveness model keeps calls valid and everything "
                "alive is released at the end in a generated order. Monitors: AddressSanitizer + UBSan subset on all five back-ends (with and without -march=native), LeakSanitizer check at the end of every lifecycle (each lifecycle in a forked child, so "
                "a leak is attributed to and shrinks with its case; parameter objects owned by the library's collector stay reachable and are not leaks), the same seeded lifecycles under two allocation fill bytes (0x00 / 0xA5) with all "
                "ciphertext and exported bytes compared, valgrind memcheck on the haswell build for the assembly back-ends. Non-trivial = configuration outside the defaults (n<8, n>N, k=2, extreme gadget layout) or a lifecycle with a thread exit or an import; distinct by case hash.")
    res.assumptions = ["MemorySanitizer is unusable here (no instrumented libstdc++): uninitialised reads are covered by valgrind and the fill-byte differential", "guard-page checks of the inline assembly are part of C12/C14/C08"]
    return core.finish(res)
