"""C15 — evaluation leaves inputs/keys untouched, accepts aliased output, uses no RNG (DESIGN.md §3 C15)."""
from .. import core, build
from ..core import Job

PREBUILD = [("c15", b, be) for b in ("optim", "debug") for be in build.BACKENDS]


def run(tier, seed):
    res = core.Result("C15", tier, seed)
    q = tier == "quick"
    jobs = []
    for lam in (128, 80):
        for (g0, g1) in ((0, 4), (5, 9), (10, 13)):
            jobs.append(Job("c15", "optim", "spqlios-fma", {"mode": "table", "lambda": lam, "seed": seed, "rows": 2 if q else 4, "gfrom": g0, "gto": g1}, label="table optim fma %d g%d-%d" % (lam, g0, g1)))
    n = 220 if q else 6000
    for k in range(5):
        jobs.append(Job("c15", "optim", "spqlios-fma", {"mode": "rc", "seed": seed + k}, rc_params=core.rc_params(core.splitmix(seed, k), n), label="rc optim fma %d" % k))
    for k in range(2):
        jobs.append(Job("c15", "debug", "spqlios-fma", {"mode": "rc", "seed": seed + k}, rc_params=core.rc_params(core.splitmix(seed, 10 + k), n // 2), label="rc debug fma %d" % k))
    for i, be in enumerate(build.BACKENDS[1:]):
        for b in ("optim", "debug"):
            slow = b == "debug" and be.startswith("nayuki")
            jobs.append(Job("c15", b, be, {"mode": "rc", "seed": seed}, rc_params=core.rc_params(core.splitmix(seed, 20 + 2 * i + len(b)), (n // 3 if not slow else n // 12)), label="rc %s %s" % (b, be)))
            if not slow:
                jobs.append(Job("c15", b, be, {"mode": "table", "lambda": 128, "seed": seed, "rows": 2, "gfrom": 0 if not q else 8, "gto": 13 if not q else 10}, label="table %s %s" % (b, be)))
            elif not q:
                jobs.append(Job("c15", b, be, {"mode": "table", "lambda": 128, "seed": seed, "rows": 2, "gfrom": 9, "gto": 10}, label="table %s %s" % (b, be)))
    core.run_jobs(jobs)
    for j in jobs:
        res.absorb(j)
    res.rule = ("Gate API: every gate x aliasing pattern in {none, result=a, result=b, result=c, a=b, a=b=c, all equal} (those that apply to the arity) on fresh encryptions: the aliased call must be byte-identical "
                "(mask, b, variance) to the non-aliased call on copies; inputs not aliased with the result, the FFT cloud key (raw Lagrange arrays), optionally the coefficient-domain key, and the parameter objects "
                "are snapshotted (64-bit hash of every array and scalar) before and after. Low-level functions on generated small key sets (n 1..12, k in {1,2}, five gadget layouts): four bootstrap variants (incl. result == input), "
                "lweKeySwitch, extraction, tGswExternProduct / tGswTLweDecompH / tGswTorus32PolynomialDecompH (const inputs temporarily offset) with random and extreme contents, tGswExternMulToTLwe, tGswFFTExternMulToTLwe, "
                "blind rotation (+extract): inputs, test polynomial, exponent array, bk and bkFFT unchanged. RNG (metamorphic, API only): seed(s); f(...); Enc(m) gives the same bytes as seed(s); Enc(m). "
                "A share of the gate and bootstrap inputs is moved onto exact rounding ties of the 2N modulus switch (mask coefficients of the bootstrapped combination congruent to 2^20 mod 2^21, body compensated with the key bit so that phase and noise stay valid). "
                "E1 rapidcheck over all of it plus a deterministic gate x pattern table. Non-trivial = aliased gate call, or a function that decomposes / bootstraps; distinct by case hash.")
    res.assumptions = ["FFT key snapshot reads N doubles behind LagrangeHalfCPolynomial::data (layout shared by all five back-ends)"]
    return core.finish(res)
