"""C12 — gadget decomposition (DESIGN.md §3 C12): E2 all 2^32 values per layout + E1 rapidcheck grid."""
from .. import core
from ..core import Job

PREBUILD = [("c12", "optim", "spqlios-fma"), ("c12", "debug", "spqlios-fma"), ("c12", "asan-native", "spqlios-fma")]
QUICK_LAYOUTS = [(3, 7), (2, 10), (4, 8), (16, 2)]
MORE_LAYOUTS = [(2, 16), (32, 1), (8, 2), (1, 16), (5, 6), (1, 1), (3, 10), (8, 4)]


def run(tier, seed):
    res = core.Result("C12", tier, seed)
    q = tier == "quick"
    jobs = []
    layouts = QUICK_LAYOUTS if q else QUICK_LAYOUTS + MORE_LAYOUTS
    for (l, bg) in layouts:
        for b in ("optim", "debug"):
            if q and b == "debug" and (l, bg) not in ((3, 7), (2, 10)):
                continue   # -O0 scalar sweeps with many digits are slow; the thorough tier runs them all
            parts = 8
            for k in range(parts):
                lo, hi = k * (1 << 32) // parts, (k + 1) * (1 << 32) // parts
                jobs.append(Job("c12", b, "spqlios-fma", {"mode": "sweep", "l": l, "Bgbit": bg, "lo": lo, "hi": hi},
                                label="sweep (%d,%d) %s part %d" % (l, bg, b, k)))
    n = 60000 if q else 1500000
    for k in range(6):
        jobs.append(Job("c12", "optim", "spqlios-fma", {"mode": "rc"}, rc_params=core.rc_params(core.splitmix(seed, k), n), label="rc optim %d" % k))
    for k in range(3):
        jobs.append(Job("c12", "debug", "spqlios-fma", {"mode": "rc"}, rc_params=core.rc_params(core.splitmix(seed, 50 + k), n), label="rc debug %d" % k))
    for k in range(2):
        jobs.append(Job("c12", "asan-native", "spqlios-fma", {"mode": "rc"}, rc_params=core.rc_params(core.splitmix(seed, 90 + k), n // 4), label="rc asan-native %d" % k))
    core.run_jobs(jobs)
    for j in jobs:
        res.absorb(j)
    # E4: coverage-guided campaign (scalar code path, clang + ASan) with the same digit / recomposition oracle inside the target
    core.run_fuzz(res, "fz_c12", 12 if tier == "quick" else 600, 2 if tier == "quick" else 6, seed, "C12")
    res.exhaustive = True
    res.rule = ("E2: every 32-bit value for the layouts (l,Bgbit) in %s on the AVX2 (optim) and scalar (debug) builds, N=1024 lanes with a rotating "
                "lane assignment; oracle = digits in [-Bg/2,Bg/2) and 0 <= x - sum d_p 2^(32-p Bgbit) < 2^(32-l Bgbit) (this representation is unique, so "
                "both builds necessarily agree) and input bytes restored. E1 rapidcheck: Bgbit in 1..16, l in 1..32/Bgbit (l*Bgbit=32 over-represented), "
                "N = 8..128 step 8 and {256,512,1024}, boundary-biased contents (k*2^(32-p Bgbit) - offset +- {0,1}, extremes), lane-independence "
                "(same value in two lanes with different neighbours), TLWE wrapper k in {1,2}; input and every result array are harness-owned "
                "guard-page buffers (PROT_NONE page flush after or before the array, canaries in the slack) because the AVX2 path is inline assembly. "
                "E4: libFuzzer target fz_c12 (bytes -> layout, ring size, content descriptor or explicit lane value; same oracle, traps on violation). "
                "Non-trivial = value whose shifted form is within one unit of a digit boundary, or l*Bgbit=32, or boundary-biased content / lane test; "
                "sweep counts are distinct by construction." % (layouts,))
    res.assumptions = ["N restricted to multiples of 8: the routine is only ever called with the ring degree (vector width 8)"]
    return core.finish(res)
