"""C11 — naive / Karatsuba / monomial multiplications and coefficient-wise ops are exact (DESIGN.md §3 C11)."""
from .. import core
from ..core import Job

PREBUILD = [("c11", "optim", "spqlios-fma"), ("c11", "debug", "spqlios-fma"), ("c11", "asan", "spqlios-fma")]


def run(tier, seed):
    res = core.Result("C11", tier, seed)
    q = tier == "quick"
    jobs = []
    n_opt, n_dbg, n_asan = (150000, 60000, 30000) if q else (3000000, 1000000, 400000)
    for k in range(9):
        jobs.append(Job("c11", "optim", "spqlios-fma", {"mode": "rc"}, rc_params=core.rc_params(core.splitmix(seed, k), n_opt), label="rc optim %d" % k))
    for k in range(3):
        jobs.append(Job("c11", "debug", "spqlios-fma", {"mode": "rc"}, rc_params=core.rc_params(core.splitmix(seed, 100 + k), n_dbg), label="rc debug %d" % k))
    for k in range(2):
        jobs.append(Job("c11", "asan", "spqlios-fma", {"mode": "rc"}, rc_params=core.rc_params(core.splitmix(seed, 200 + k), n_asan), label="rc asan %d" % k))
    nmax = 256 if q else 2048
    for b in ("optim", "debug"):
        jobs.append(Job("c11", b, "spqlios-fma", {"mode": "xai_sweep", "Nmax": min(nmax, 512), "seed": seed}))
        if not q:
            for N in (1024, 2048):
                jobs.append(Job("c11", b, "spqlios-fma", {"mode": "xai_sweep", "Nmin": N, "Nmax": N, "seed": seed}))
        jobs.append(Job("c11", b, "spqlios-fma", {"mode": "bilinear", "Nmax": 16, "Nbig": 256 if q else 2048}))
    jobs.append(Job("c11", "asan", "spqlios-fma", {"mode": "xai_sweep", "Nmax": 64, "seed": seed}))
    jobs.append(Job("c11", "asan", "spqlios-fma", {"mode": "bilinear", "Nmax": 8, "Nbig": 64}))
    core.run_jobs(jobs)
    for j in jobs:
        res.absorb(j)
    # E4: coverage-guided campaign with the same oracle inside the target (value profile finds a = N, 2N-1, tie phases)
    core.run_fuzz(res, "fz_c11", 12 if tier == "quick" else 600, 2 if tier == "quick" else 8, seed, "C11")
    res.rule = ("E1 rapidcheck: op in 24 operations/laws, N=2^e (e in 0..11), a in [0,2N) with {0,N-1,N,2N-1} over-represented, scalar p incl. "
                "INT32_MIN/MAX, polynomial contents = explicit coefficient vectors (N<=16) or shape descriptors (random, all-MAX, all-MIN, "
                "alternating, spike, ramp, zero) expanded from a generated seed; oracle = uint64 schoolbook / explicit index reference, exact "
                "equality, inputs unchanged. E2: every a in [0,2N) for every power of two N<=%d x 4 monomial ops x 3 contents; full bilinear "
                "table (c1 X^i)(c2 X^j) for N<=16 x 4 product routines. Non-trivial = N>=16 (above the Karatsuba cut-off) or a in "
                "{0,N-1,N,2N-1} or extreme coefficient content; distinct = hash of the case (rapidcheck part) or distinct by construction "
                "(enumerations). The asan build adds the memory side (temporaries sized from N)." % nmax)
    res.assumptions = ["reference arithmetic: 64-bit accumulation reduced mod 2^32, independent of the library",
                       "polynomial routines are back-end independent (core objects)"]
    return core.finish(res)
