"""C17 — the exported cloud key contains only public evaluation material (DESIGN.md §3 C17)."""
from .. import core, build
from ..core import Job

PREBUILD = [("c17", "optim", "spqlios-fma"), ("c17", "debug", "spqlios-fma"), ("c17", "optim", "fftw")]


def run(tier, seed):
    res = core.Result("C17", tier, seed)
    q = tier == "quick"
    jobs = []
    n = 120 if q else 3000
    for k in range(8):
        jobs.append(Job("c17", "optim", "spqlios-fma", {"mode": "rc"}, rc_params=core.rc_params(core.splitmix(seed, k), n), label="rc optim %d" % k))
    for k in range(2):
        jobs.append(Job("c17", "debug", "spqlios-fma", {"mode": "rc"}, rc_params=core.rc_params(core.splitmix(seed, 10 + k), n // 3), label="rc debug %d" % k))
    jobs.append(Job("c17", "optim", "fftw", {"mode": "rc"}, rc_params=core.rc_params(core.splitmix(seed, 20), n // 2), label="rc optim fftw"))
    for lam in (128, 80):
        jobs.append(Job("c17", "optim", "spqlios-fma", {"mode": "defaults", "seed": seed, "lambda": lam}, label="defaults %d" % lam, weight=2))
    if not q:
        for lam in (128, 80):
            jobs.append(Job("c17", "debug", "spqlios-fma", {"mode": "defaults", "seed": seed + 5, "lambda": lam}, label="defaults debug %d" % lam))
    core.run_jobs(jobs)
    for j in jobs:
        res.absorb(j)
    res.rule = ("E1 rapidcheck over key seeds x small custom parameter sets (n in 1..64 and 128..200, k in {1,2}, N=1024, gadget (l,Bgbit), key-switch (t,basebit), noise levels incl. noise-free ring parameters) x transport x a generated "
                "history of 0..3 earlier exports in the same process (cloud or secret, FILE or stream, same or another key set); a third of the cases first export the cloud and the secret key from 2..6 threads at once on alternating transports, each thread must obtain the single-threaded bytes; plus both default parameter sets on both transports. Oracle on the cloud export: "
                "size == |params export| + |key-switch text| + (12 + kN t 2^basebit (n+1) 4) + (12 + n kpl (k+1) N 4) with text lengths obtained through the API; strict prefix of the secret export with remainder "
                "(4+4n)+(4+4kN); substring search for the LWE key / every ring key polynomial as int32 arrays, for every informative 32-entry (16 for small n) window of them (rolling hash), and for byte-, bit- (LSB/MSB first) "
                "and ASCII-packed encodings with and without separators; every zero-mask row of the key-switching key must carry b = 0 and no bootstrapping row may have a zero mask (key-dependent value in clear in the "
                "library's own encoding); the importer consumes exactly the stream and the re-export is identical. Non-trivial = n >= 16 (a key window exists; a chance match has probability < 2^-400); distinct by case hash.")
    res.assumptions = ["substring search covers the encodings listed; an obfuscated leak (e.g. keyed permutation) is outside what generated search can see"]
    return core.finish(res)
