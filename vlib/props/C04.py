"""C04 — bootstrapping maps the rounded input phase through the test polynomial exactly (DESIGN.md §3 C04)."""
from .. import core, build
from ..core import Job

PREBUILD = [("c04", b, be) for b in ("optim", "debug") for be in build.BACKENDS] + [("c04", "asan", "spqlios-fma"), ("c04", "asan", "nayuki-portable")]


def run(tier, seed):
    res = core.Result("C04", tier, seed)
    q = tier == "quick"
    jobs = []
    # E2: all 2N values of p (trivial centre + three rounding-edge phases + one targeted random mask), per function, noise-free small key sets
    sweeps = [(8, 1, 3, 7, 1), (8, 1, 3, 7, 0), (7, 2, 2, 10, 1), (9, 1, 4, 6, 3), (8, 1, 3, 7, 2)]
    for b in ("optim", "debug"):
        for (n, k, l, bg, f) in sweeps:
            if b == "debug" and q and f >= 2:
                continue
            for part in range(2):
                jobs.append(Job("c04", b, "spqlios-fma", {"mode": "sweep", "n": n, "k": k, "l": l, "Bgbit": bg, "f": f, "seed": seed, "plo": part * 1024, "phi": (part + 1) * 1024,
                                                          "masks": 1 if q else 3}, label="sweep %s n=%d k=%d f=%d part %d" % (b, n, k, f, part)))
    # default-size noisy key set: every p with trivial inputs (no rotation => cheap) through the full bootstrap with key switch
    jobs.append(Job("c04", "optim", "spqlios-fma", {"mode": "sweep", "n": 630, "f": 0, "seed": seed, "masks": 0, "noisy": 1}, label="sweep default-size noisy f=0"))
    for be in build.BACKENDS[1:]:
        for b in ("optim", "debug"):
            slow = b == "debug" and be.startswith("nayuki")
            jobs.append(Job("c04", b, be, {"mode": "sweep", "n": 8, "f": 1, "seed": seed, "masks": 1, "plo": 0 if not slow else 1000, "phi": 2048 if not slow else 1048},
                            label="sweep %s %s" % (b, be)))
            jobs.append(Job("c04", b, be, {"mode": "rc", "seed": seed}, rc_params=core.rc_params(core.splitmix(seed, hash(be) % 100 + len(b)), (150 if not slow else 40) if q else 3000),
                            label="rc %s %s" % (b, be)))
    n = 500 if q else 20000
    for k in range(5):
        jobs.append(Job("c04", "optim", "spqlios-fma", {"mode": "rc", "seed": seed + k}, rc_params=core.rc_params(core.splitmix(seed, k), n), label="rc optim fma %d" % k))
    for k in range(2):
        jobs.append(Job("c04", "debug", "spqlios-fma", {"mode": "rc", "seed": seed + k}, rc_params=core.rc_params(core.splitmix(seed, 20 + k), n // 3), label="rc debug fma %d" % k))
    # big key sets: default sizes with default noise, n > N, k = 2
    for k in range(3 if q else 8):
        jobs.append(Job("c04", "optim", "spqlios-fma", {"mode": "rc", "big": 1, "seed": seed + k}, rc_params=core.rc_params(core.splitmix(seed, 40 + k), 25 if q else 400), label="rc big optim %d" % k))
    jobs.append(Job("c04", "debug", "spqlios-fma", {"mode": "rc", "big": 1, "seed": seed}, rc_params=core.rc_params(core.splitmix(seed, 50), 8 if q else 100), label="rc big debug"))
    # memory side of n > N (scratch array sized from the input dimension): the same generator under AddressSanitizer
    jobs.append(Job("c04", "asan", "spqlios-fma", {"mode": "rc", "big": 1, "seed": seed}, rc_params=core.rc_params(core.splitmix(seed, 60), 10 if q else 60), label="rc big asan"))
    jobs.append(Job("c04", "asan", "nayuki-portable", {"mode": "rc", "seed": seed}, rc_params=core.rc_params(core.splitmix(seed, 61), 60 if q else 600), label="rc asan nayuki"))
    core.run_jobs(jobs)
    for j in jobs:
        res.absorb(j)
        for f in res.failures:
            if f.get("crash") and f.get("case") and (f["case"].get("cfg") or {}).get("n", 0) > 1024:
                f["sig"] = "c04/crash/n>N"
    res.rule = ("E2: for noise-free key sets (n in {7,8,9}, k in {1,2}, several gadget layouts) and for the default-size noisy key set, every rounded phase p in [0,2N) is produced with a trivial "
                "sample at the bucket centre and at the three phases tie-1, tie, tie+1 of its lower rounding edge (the tie accepts either neighbour), plus a random mask whose b is adjusted so "
                "the exact rounded phase equals p; functions tfhe_bootstrap_FFT, _woKS_FFT, tfhe_bootstrap, _woKS. E1 rapidcheck: key-set menu (n in {1,5,...,16} with k in {1,2} and 9 gadget/key-switch "
                "layouts; big: n=500/630 default noise, n=630/1025/1100 and k=2 n=1030 noise-free), output message mu (+-1/8, multiples, random, 0, 1/2), inputs {trivial bucket/edge, targeted mask with p in "
                "{0,1,N-1,N,N+1,2N-1} or random, fresh encryption}, and blind-rotate-and-extract with test polynomials {random, spike, ramp, one flip, alternating}, barb and exponent vectors "
                "{random, all 0, all 2N-1, single entry, alternating 2N-1/0}. Oracle: p = round(2N b) - sum round(2N a_i) s_i computed by the harness (round half up; ties widen the admissible set), "
                "result phase under the extracted / LWE key within an analytic tolerance of +-mu resp. v_p of the anticyclic extension; cases whose tolerance would exceed 1/16 are not asserted (counted). "
                "Non-trivial = p within 1 of {0,N-1,N,2N-1}, or n > N, or k = 2; distinct by hash / by construction.")
    res.assumptions = ["keys with noise 1e-300 are noise-free up to the +-1 unit FFT rounding of each row (covered by the 2^-12 slack)",
                       "tolerance derivation is written in harness/c04.cpp next to the constant"]
    return core.finish(res)
