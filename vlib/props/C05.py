"""C05 — export followed by import reproduces every object exactly, on both transports (DESIGN.md §3 C05)."""
from .. import core, build
from ..core import Job

PREBUILD = [("c05", "optim", be) for be in build.BACKENDS] + [("c05", "debug", "spqlios-fma"), ("c05", "asan", "spqlios-fma")]


def run(tier, seed):
    res = core.Result("C05", tier, seed)
    q = tier == "quick"
    jobs = []
    n = 8000 if q else 200000
    for k in range(6):
        jobs.append(Job("c05", "optim", "spqlios-fma", {"mode": "rc"}, rc_params=core.rc_params(core.splitmix(seed, k), n), label="rc optim %d" % k))
    for k in range(3):
        jobs.append(Job("c05", "debug", "spqlios-fma", {"mode": "rc"}, rc_params=core.rc_params(core.splitmix(seed, 10 + k), n // 2), label="rc debug %d" % k))
    jobs.append(Job("c05", "asan", "spqlios-fma", {"mode": "rc"}, rc_params=core.rc_params(core.splitmix(seed, 20), n // 4), label="rc asan"))
    # default parameter sets + one default-size key set per set: functional equivalence involves the FFT back-end
    for i, be in enumerate(build.BACKENDS):
        jobs.append(Job("c05", "optim", be, {"mode": "defaults", "seed": seed + i, "keys": 1 if (not q or be in ("spqlios-fma", "fftw", "nayuki-avx")) else 0}, label="defaults optim %s" % be))
        if be != "spqlios-fma":
            jobs.append(Job("c05", "optim", be, {"mode": "rc"}, rc_params=core.rc_params(core.splitmix(seed, 30 + i), n // 8), label="rc optim %s" % be))
    if not q:
        for be in build.BACKENDS:
            jobs.append(Job("c05", "debug", be, {"mode": "defaults", "seed": seed + 9, "keys": 0 if be.startswith("nayuki") else 1}, label="defaults debug %s" % be))
    core.run_jobs(jobs)
    for j in jobs:
        res.absorb(j)
    res.rule = ("E1 rapidcheck over sequences of 1..6 objects drawn from the 14 exportable types (parameter objects, keys, samples, key-switching and bootstrapping keys, gate parameter sets, cloud and "
                "secret key sets) with generated dimensions (n up to 700 and 2040..2600, N in 1..16, {32,64,100,1024} and {2047,2048,2049,4096}: single coefficient arrays on both sides of the 8 KB stdio buffer size, k<=3, gadget and key-switch layouts), contents (random / all-MAX / all-MIN / alternating / zero / all -1), "
                "per-row variances, and real-valued parameters that are either the defaults' values (2^-15, 2^-25, 7.18e-9, 2.44e-5, 0.012467, 0.1, 0.3, 0.5, 1e-12) or full-precision doubles 2^-e*(1+m) down to 1e-12; "
                "all objects written back-to-back into ONE stream with transport in {FILE (memory stream or a real file), C++ stream} and read back with either transport (in memory or from a real file). Oracle: field-for-field equality with doubles compared by ==, "
                "key-row variances equal to the common maximum, importer position == end of the object, FILE and stream exports identical, re-export of the imported object byte-identical; cloud key: the same "
                "gate sequence on the same ciphertexts gives byte-identical outputs; secret key: identical decryptions and identical fresh encryptions after reseeding. Plus both default parameter sets and a "
                "default-size key set per set. Non-trivial = a sequence of >= 2 objects, or an object with a real parameter not representable in 8 decimals; distinct by case hash.")
    res.assumptions = ["objects are built through the public constructors and structure fields"]
    return core.finish(res)
