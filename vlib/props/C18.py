"""C18 — truncated or mistyped serialized input is never accepted silently (DESIGN.md §3 C18). E3 + E2."""
from .. import core
from ..core import Job

PREBUILD = [("c18", "asan", "spqlios-fma"), ("c18", "optim", "spqlios-fma")]
ENV = {"ASAN_OPTIONS": "detect_leaks=0:handle_segv=0:exitcode=77:abort_on_error=0:allocator_may_return_null=1", "UBSAN_OPTIONS": "halt_on_error=1:print_stacktrace=0"}


def run(tier, seed):
    res = core.Result("C18", tier, seed, level="fault_enumeration")
    q = tier == "quick"
    jobs = []
    for t in list(range(12)) + [14]:
        jobs.append(Job("c18", "asan", "spqlios-fma", {"mode": "trunc", "tfrom": t, "tto": t, "seed": seed}, env=ENV, label="trunc type %d" % t))
    for t in (12, 13):   # cloud / secret key sets (~33 KB): every offset in text sections and around every boundary, every 16th interior offset in quick, all in thorough
        for s2 in range(2 if q else 1):
            jobs.append(Job("c18", "asan", "spqlios-fma", {"mode": "trunc", "tfrom": t, "tto": t, "seed": seed + s2, "stride": 32 if q else 1}, env=ENV, label="trunc type %d (%d)" % (t, s2)))
    for t in range(15):
        jobs.append(Job("c18", "asan", "spqlios-fma", {"mode": "corrupt", "tfrom": t, "tto": t, "seed": seed}, env=ENV, label="corrupt type %d" % t))
    jobs.append(Job("c18", "asan", "spqlios-fma", {"mode": "subst", "seed": seed}, env=ENV, label="subst"))
    # the same small-object families on the project's optimised build (no sanitizer): exit status only
    jobs.append(Job("c18", "optim", "spqlios-fma", {"mode": "trunc", "tfrom": 0, "tto": 11, "seed": seed + 7}, label="trunc optim"))
    jobs.append(Job("c18", "optim", "spqlios-fma", {"mode": "subst", "seed": seed + 7}, label="subst optim"))
    jobs.append(Job("c18", "optim", "spqlios-fma", {"mode": "corrupt", "tfrom": 0, "tto": 11, "seed": seed + 7}, label="corrupt optim (NDEBUG build: checks must not rest on assert)"))
    if not q:
        for s2 in range(1, 6):   # other generated small instances
            jobs.append(Job("c18", "asan", "spqlios-fma", {"mode": "trunc", "tfrom": 0, "tto": 11, "seed": seed + 100 * s2}, env=ENV, label="trunc seed+%d" % s2))
            jobs.append(Job("c18", "asan", "spqlios-fma", {"mode": "corrupt", "tfrom": 0, "tto": 11, "seed": seed + 100 * s2}, env=ENV, label="corrupt seed+%d" % s2))
    core.run_jobs(jobs)
    for j in jobs:
        res.absorb(j)
    hang = res.classes.get("inconclusive_hang", 0)
    if hang:
        res.inconclusive.append({"reason": "%d children hit the 10 s alarm" % hang})
    res.exhaustive = not q
    res.rule = ("Fault enumeration, one forked child per fault: (a) every proper prefix of the export of a small-parameter instance of each of the 15 exportable object kinds (14 types + gate-API ciphertext) (every byte offset; for the ~33 KB cloud/secret key sets every "
                "offset in text sections and near boundaries, the last 40 bytes, and every 32nd interior offset in quick / all in thorough); (b) every ordered pair export-of-A fed to importer-of-B (A != B); (c) every single-byte "
                "corruption (+1, ^0x20, ^0x80) of every byte of every section title line, property name and binary type tag; all on both transports, sanitizer (ASan+UBSan subset) build, plus the small families on the optim build. "
                "Accepted outcomes: SIGABRT; NULL->method() dereference on the missing text section; C++ stream left in failed state; a returned object equal to the import of the intact export (e.g. final newline missing) or, for "
                "substitutions, an input that really begins with a complete object of the requested type (LweKey export read as LweParams). Violation: normal return with a clean stream (any normal return on FILE) and a different object, "
                "a wild memory access, or a sanitizer report. A hang (10 s) is inconclusive. Every fault is non-trivial and distinct by construction.")
    res.assumptions = ["small-parameter instances stand for the type: the readers have no size-dependent branches (read in tfhe_io.cpp)"]
    return core.finish(res)
