"""C09 — external product multiplies messages; blind rotation rotates by the secret exponent (DESIGN.md §3 C09)."""
from .. import core, build
from ..core import Job

PREBUILD = [("c09", b, be) for b in ("optim", "debug") for be in build.BACKENDS]


def run(tier, seed):
    res = core.Result("C09", tier, seed)
    q = tier == "quick"
    jobs = []
    n = 1200 if q else 20000
    for k in range(6):
        jobs.append(Job("c09", "optim", "spqlios-fma", {"mode": "rc", "seed": seed + k, "nrot": 40 if q else 630}, rc_params=core.rc_params(core.splitmix(seed, k), n), label="rc optim fma %d" % k))
    for k in range(2):
        jobs.append(Job("c09", "debug", "spqlios-fma", {"mode": "rc", "seed": seed + k}, rc_params=core.rc_params(core.splitmix(seed, 10 + k), n // 2), label="rc debug fma %d" % k))
    for i, be in enumerate(build.BACKENDS[1:]):
        for b in ("optim", "debug"):
            slow = b == "debug" and be.startswith("nayuki")
            jobs.append(Job("c09", b, be, {"mode": "rc", "seed": seed + i, "nrot": 12 if slow else 40}, rc_params=core.rc_params(core.splitmix(seed, 20 + 2 * i + len(b)), (n // 3) if not slow else n // 12),
                            label="rc %s %s" % (b, be)))
    core.run_jobs(jobs)
    for j in jobs:
        res.absorb(j)
    res.rule = ("E1 rapidcheck, N=1024: function in {tGswExternProduct (a quarter of the calls with the TLWE sample as output object, i.e. in place), tGswExternMulToTLwe, tGswFFTExternMulToTLwe (after tGswToFFTConvert), FFT round trip of a TGSW sample, tfhe_blindRotate_FFT, "
                "tfhe_blindRotate}; k in {1,2}; Bgbit 1..16, l up to min(32/Bgbit,8); message m in {0, 1, -1, X^j, |m|_1<=8}; TGSW rows either written by the harness through the public structure in exact "
                "integer arithmetic (noise-free) or encrypted by the library with sigma 2^-15..2^-30 (row errors then measured exactly with the key); TLWE inputs random / all-MAX / all-MIN / alternating / all -1; "
                "blind rotation on key sets with n in 1..12 and 40 (630 thorough), exponent vectors {random, all 0, all 2N-1, single entry, alternating, zeros interleaved}, random or trivial accumulators. "
                "Oracle A (key-independent): every coefficient of every component equals the exact sum_p dec_p (*) row_p (reference decomposition, 64-bit schoolbook products) within T = 2 kpl max(1,Bg/2^10)+2 units. "
                "Oracle B: phase(result) = m (phase(c) - truncation term) + sum_p dec_p (*) rowerr_p within (1+k|s|_1) T. Blind rotation: phase(acc') = X^(sum bara_i s_i) phase(acc) within the analytic tolerance "
                "written in harness/c09.cpp. Non-trivial = m not in {0,1} or extreme TLWE content or a structured exponent vector; distinct by case hash.")
    res.assumptions = ["tGswExternProduct is also exercised with result == b (in-place update of an accumulator): the pristine code decomposes b before clearing result and so supports it; the oracle is the same product formula", "reference decomposition = the digit representation validated by C12", "library-encrypted rows: errors measured exactly, so the noisy case is an identity, not a statistic; each measured row error must itself be within 9 alpha + 16 units of the gadget message, so a wrong row cannot hide in it"]
    return core.finish(res)
