"""C03 — decryption inverts encryption for LWE, TLWE, TGSW and gate ciphertexts (DESIGN.md §3 C03)."""
from .. import core, build
from ..core import Job

PREBUILD = [("c03", b, be) for b in ("optim", "debug") for be in build.BACKENDS]


def run(tier, seed):
    res = core.Result("C03", tier, seed)
    q = tier == "quick"
    jobs = []
    n = 30000 if q else 400000
    for k in range(7):
        jobs.append(Job("c03", "optim", "spqlios-fma", {"mode": "rc"}, rc_params=core.rc_params(core.splitmix(seed, k), n), label="rc optim fma %d" % k))
    for k in range(2):
        jobs.append(Job("c03", "debug", "spqlios-fma", {"mode": "rc"}, rc_params=core.rc_params(core.splitmix(seed, 30 + k), n // 3), label="rc debug fma %d" % k))
    for b in ("optim", "debug"):
        for i, be in enumerate(build.BACKENDS):
            if be == "spqlios-fma":
                continue
            slow = b == "debug" and be.startswith("nayuki")
            m = (n // 4 if not slow else n // 24)
            jobs.append(Job("c03", b, be, {"mode": "rc"}, rc_params=core.rc_params(core.splitmix(seed, 60 + 10 * i + len(b)), m), label="rc %s %s" % (b, be)))
    for b in ("optim", "debug"):
        jobs.append(Job("c03", b, "spqlios-fma", {"mode": "allmsg", "seed": seed}))
        for be in build.BACKENDS:
            slow = b == "debug" and be.startswith("nayuki")
            jobs.append(Job("c03", b, be, {"mode": "gate", "seed": seed, "batches": 4 if q else 40, "reps": 500 if slow else 2000}, label="gate %s %s" % (b, be)))
    core.run_jobs(jobs)
    for j in jobs:
        res.absorb(j)
    res.rule = ("E1 rapidcheck: scheme in {LWE, trivial LWE, TLWE constant, TLWE polynomial, trivial TLWE, TGSW polynomial, TGSW integer, trivial TGSW}; key seed; "
                "n in 1..40 and {500,630,1024,1025}; (N,k)=(1024,1..3); Msize any integer in 2..2^20 (non powers of two included, e.g. 65535, 65537, 100000, 1000003) and "
                "powers of two up to 2^30; TGSW: (l,Bgbit) from the valid grid, Msize a power of two <= Bg; messages incl. 0 and Msize-1; noise class in "
                "{~0, 2^-30, max/16, max/2, max} with max = 1/(20 Msize) (10 sigma) for LWE/TLWE and 1/(20 Msize |d|_2) for TGSW, d = the gadget digits of 1/Msize that decryption multiplies the row noise with. E2: every message of every "
                "Msize in 2..64 (LWE n in {1,7,500}, TLWE constant and polynomial) at zero and maximal noise. Gate API: 2*reps encrypt/decrypt round trips per "
                "batch under both default parameter sets on every back-end and build, plus CONSTANT. Oracle: decrypt(encrypt(m)) == m exactly; trivial samples under a freshly "
                "generated key. Non-trivial = noise within a factor 2 of the maximum (non-trivial schemes) or Msize not a power of two; distinct by case hash / by construction.")
    res.assumptions = ["10-sigma margin at the maximal noise: per-sample false-alarm probability 1.5e-23"]
    return core.finish(res)
