"""C01 — every homomorphic gate computes its Boolean function (DESIGN.md §3 C01)."""
from .. import core, build
from ..core import Job

PREBUILD = [("c01", b, be) for b in ("optim", "debug") for be in build.BACKENDS]
GATE_NAMES = ["NAND", "OR", "AND", "XOR", "XNOR", "NOR", "ANDNY", "ANDYN", "ORNY", "ORYN", "MUX", "NOT", "COPY", "CONSTANT"]
ARITY = {"MUX": 3, "NOT": 1, "COPY": 1, "CONSTANT": 1}


def run(tier, seed):
    res = core.Result("C01", tier, seed)
    q = tier == "quick"
    jobs = []
    kb = 1 + (seed % 1000) * 10
    n = 350 if q else 2500
    for k in range(12 if q else 32):
        jobs.append(Job("c01", "optim", "spqlios-fma", {"mode": "rc", "keys": 2 if q else 4, "keybase": kb + 2 * (k % 2), "first_lambda": 80 if k % 2 else 128},
                        rc_params=core.rc_params(core.splitmix(seed, k), n), label="rc optim fma %d" % k))
    for lam in (128, 80):
        jobs.append(Job("c01", "optim", "spqlios-fma", {"mode": "table", "lambda": lam, "keys": 1, "keybase": kb, "seed": seed, "reps": 1 if q else 8}, label="table optim fma %d" % lam))
    for b in ("optim", "debug"):
        for be in build.BACKENDS:
            if b == "optim" and be == "spqlios-fma":
                continue
            slow = 8 if (b == "debug" and be == "nayuki-portable") else 4 if (b == "debug" and be == "nayuki-avx") else 2 if b == "debug" or be.startswith("nayuki") else 1
            ranges = {1: [(0, 13)], 2: [(0, 5), (6, 13)], 4: [(0, 2), (3, 5), (6, 9), (10, 13)],
                      8: [(0, 1), (2, 3), (4, 5), (6, 7), (8, 9), (10, 10), (11, 13), (10, 10)]}[slow]
            for lam in (128, 80):
                for ri, (g0, g1) in enumerate(ranges):
                    if slow == 8 and ri == 7:
                        continue
                    jobs.append(Job("c01", b, be, {"mode": "table", "lambda": lam, "keys": 1, "keybase": kb, "seed": seed + 1, "full": 0 if q else 1,
                                                   "gfrom": g0, "gto": g1, "reps": 1 if q else 2}, label="table %s %s %d g%d-%d" % (b, be, lam, g0, g1)))
            if not q:
                for k in range(2):
                    jobs.append(Job("c01", b, be, {"mode": "rc", "keys": 2, "keybase": kb}, rc_params=core.rc_params(core.splitmix(seed, 500 + k), 150 if slow >= 4 else 1000),
                                    label="rc %s %s %d" % (b, be, k)))
    # longest jobs first
    jobs.sort(key=lambda j: 0 if "nayuki-portable" in j.label and "debug" in j.label else 1 if "debug" in j.label else 2)
    core.run_jobs(jobs)
    for j in jobs:
        res.absorb(j)
    # coverage floor: every gate x every truth-table row x {fresh, chained, forged to the limit} must have been executed
    missing = []
    for g in GATE_NAMES:
        ar = ARITY.get(g, 2)
        for row in range(1 << ar):
            bits = "%d%d%d" % (row & 1, (row >> 1) & 1 if ar > 1 else 0, (row >> 2) & 1 if ar > 2 else 0)
            for cls in (("fresh", "chained", "forgedmax") if g != "CONSTANT" else ("fresh",)):
                if res.classes.get("%s_%s_%s" % (g, bits, cls), 0) == 0:
                    missing.append("%s_%s_%s" % (g, bits, cls))
    if missing:
        res.harness_errors.append("coverage floor not met: %s" % missing[:10])
    res.extra["coverage_floor_missing"] = missing
    res.rule = ("E1 rapidcheck over (parameter set in {80,128}, key seed, gate in the 14 gates, plaintext tuple, per-input provenance in {fresh encryption, output of a random "
                "previous gate, trivial CONSTANT, forged from fresh, forged from a gate output}, forged phase error in {+-1/32, +-(1/32 - 1 unit), +-1/64, 0, uniform, adversarial toward / away "
                "from the decision boundary given the gate's affine form}); forged inputs are built with the secret key so that the phase is exactly +-1/8+e. Plus a deterministic table: "
                "every gate x every truth-table row x {fresh, forged-max toward the boundary, chained (, forged-max away, forged chained, +-(1/32-1))} on every back-end and both builds. "
                "Oracle: bootsSymDecrypt == truth table; bootstrapped outputs within 3/64 of +-1/8; output sign == sign predicted from the harness-computed rounded phase of the gate's "
                "internal combination; NOT/COPY/CONSTANT exact coefficient relations. Non-trivial = bootstrapped gate with an input that is a gate output or forged with |e| >= 1/64; distinct by case hash.")
    res.assumptions = ["admissible inputs leave >= 1/16 of margin (>= 23 sigma of modulus-switch noise): no statistical assertion is made"]
    return core.finish(res)
