"""C08 — key switching preserves the phase up to a bounded, unbiased error (DESIGN.md §3 C08)."""
from .. import core
from ..core import Job

PREBUILD = [("c08", "optim", "spqlios-fma"), ("c08", "debug", "spqlios-fma"), ("c08", "asan-native", "spqlios-fma")]
QUICK = [(8, 2)]
THOROUGH = [(8, 2), (16, 1), (31, 1), (15, 2), (10, 3), (7, 4), (1, 1), (3, 10), (2, 2), (14, 2)]


def run(tier, seed):
    res = core.Result("C08", tier, seed)
    q = tier == "quick"
    jobs, sweeps = [], []
    parts = 16
    for (t, bb) in (QUICK if q else THOROUGH):
        for b in (("optim",) if q else ("optim", "debug")):
            if b == "debug" and (t, bb) not in ((8, 2), (1, 1), (31, 1)):
                continue
            for k in range(parts):
                j = Job("c08", b, "spqlios-fma", {"mode": "sweep", "t": t, "basebit": bb, "lo": k << 28, "hi": (k + 1) << 28, "seed": seed,
                                                  "nout": 5 if b == "optim" else 3}, label="sweep (%d,%d) %s %d" % (t, bb, b, k))
                jobs.append(j)
                sweeps.append(((t, bb, b), j))
    n = 2500 if q else 60000
    for k in range(6):
        jobs.append(Job("c08", "optim", "spqlios-fma", {"mode": "rc"}, rc_params=core.rc_params(core.splitmix(seed, k), n), label="rc optim %d" % k))
    for k in range(3):
        jobs.append(Job("c08", "debug", "spqlios-fma", {"mode": "rc"}, rc_params=core.rc_params(core.splitmix(seed, 20 + k), n // 2), label="rc debug %d" % k))
    jobs.append(Job("c08", "asan-native", "spqlios-fma", {"mode": "rc"}, rc_params=core.rc_params(core.splitmix(seed, 40), n // 3), label="rc asan-native"))
    stat_jobs = []
    for k in range(6 if q else 18):
        lay = [(8, 2, 1024, 500), (8, 2, 1024, 630), (4, 4, 512, 500), (14, 2, 600, 501), (15, 1, 1024, 500), (24, 1, 300, 17)][k % 6]
        j = Job("c08", "optim" if k % 4 != 3 else "debug", "spqlios-fma",
                {"mode": "realstats", "t": lay[0], "basebit": lay[1], "nin": lay[2], "nout": lay[3], "samples": 5000 if q else 8000,
                 "seed": core.splitmix(seed, 70 + k), "alog": 15 if k % 2 == 0 else 20}, label="realstats %d" % k)
        jobs.append(j)
        stat_jobs.append(j)
    core.run_jobs(jobs)
    for j in jobs:
        res.absorb(j)
    # E4: coverage-guided campaign on noise-free keys with explicit mask coefficients and the exact identity inside the target
    core.run_fuzz(res, "fz_c08", 12 if q else 600, 2 if q else 6, seed, "C08")
    # unbiasedness over the complete sweep: sum of phase errors over all 2^32 values is -2^31 (ties up) or +2^31 (ties down)
    tot = {}
    for key, j in sweeps:
        if j.report:
            s = tot.setdefault(key, [0, 0])
            s[0] += int(j.report["stats"].get("sum_phase_error_units", 0))
            s[1] += int(j.report["stats"].get("values", 0))
    for key, (s, nvals) in tot.items():
        res.stats["sweep t=%d basebit=%d %s" % key] = {"values": nvals, "sum_error_units": s, "mean_error_units": s / max(nvals, 1)}
        if nvals == 1 << 32 and abs(s) != 1 << 31 and not res.failures:
            res.failures.append({"check": "c08", "config": {"build": key[2], "backend": "spqlios-fma"}, "case": None, "no_replay": True,
                                 "why": "key-switch truncation is biased: mean error over all 2^32 mask values is %.6f units, expected -1/2 (round to nearest)" % (s / nvals),
                                 "sig": "c08/bias"})
    nsamp = 0
    for j in stat_jobs:
        if j.report:
            res.stats[j.label] = j.report["stats"]
            nsamp += int(j.report["stats"].get("samples", 0))
    res.stats["real_key_samples_total"] = nsamp
    res.exhaustive = True
    res.rule = ("E2: every value of a mask coefficient (all 2^32) for layouts %s on a harness-built noise-free key (rows filled through the public structure: random mask, "
                "b = <a,s_out> + h s_i 2^(32-(j+1)basebit) exactly), single source coefficient with key bit 1; oracle: phase_out - phase_in = a - round_w(a) with |.| <= 2^(w-1), a-e multiple of 2^w, "
                "ties either way, and the sum over the sweep is -+2^31 (mean -+1/2 unit: unbiased). E1 rapidcheck: basebit 1..10, t up to 31/basebit, source dimension in "
                "{1,2,3,7,8,9,17,1024,2048}, target in 1..9 and {500,630}, noise-free and library-generated (noisy) keys, masks random / boundary-biased (digit boundaries +-2 after the "
                "rounding offset, carry to the top, wrap, exact ties +-2), result mask in a guard-page buffer; oracle: phase difference == sum_i s_i (a_i - round_w(a_i)) - sum of the "
                "measured errors of the rows (i,j,digit!=0), an exact identity; every row (i,j,h) of a library-generated key must itself encrypt h s_i base^-(j+1) within 9 alpha (+2 units) and the row noise variance must match alpha (z=6), so a wrong row message cannot hide in the measured errors. Real keys (layouts incl. basebit 1): >= %d samples with the exact identity plus z=6 tests of the residual mean/variance against their "
                "expectation under uniform digits computed from the measured row errors. E4: libFuzzer target fz_c08 (bytes -> digit layout, dimensions 1..9, explicit mask words; noise-free key, exact identity, traps on violation). Non-trivial = boundary-biased mask or a dimension that is not a multiple of 8 (rapidcheck, hashed), "
                "or a value within 1 unit of a rounding boundary / the wrap (sweeps, by construction)." % ((QUICK if q else THOROUGH), nsamp))
    res.assumptions = ["row errors of library-generated keys are measured exactly with the secret keys before use",
                       "h=0 rows are the trivial zero sample, as generated by the library"]
    return core.finish(res)
