"""C10 — FFT products within 2 units on every back-end; transforms inverse; Lagrange ops commute (DESIGN.md §3 C10)."""
from .. import core, build
from ..core import Job

PREBUILD = [("c10", b, be) for b in ("optim", "debug") for be in build.BACKENDS]


def run(tier, seed):
    res = core.Result("C10", tier, seed)
    q = tier == "quick"
    jobs = []
    for b in ("optim", "debug"):
        for be in build.BACKENDS:
            dbg = b == "debug"
            slow = dbg and be.startswith("nayuki")
            # debug builds carry the library's own assertions: run every case in a forked child so an abort is a shrinkable failure
            jobs.append(Job("c10", b, be, {"mode": "grid", "seed": seed, "fork": 1 if dbg else 0}, label="grid %s %s" % (b, be)))
            n = (2000 if not slow else 600) if q else (100000 if not slow else 20000)
            shards = 1 if q else 4
            for k in range(shards):
                jobs.append(Job("c10", b, be, {"mode": "rc", "fork": 1 if dbg else 0},
                                rc_params=core.rc_params(core.splitmix(seed, hash((b, be)) % 1000 + k), n // shards), label="rc %s %s %d" % (b, be, k)))
    core.run_jobs(jobs)
    for j in jobs:
        res.absorb(j)
        if j.report:
            for k, v in j.report.get("stats", {}).items():
                key = "%s/%s %s" % (j.config, j.backend, k)
                res.stats[key] = max(res.stats.get(key, 0), v)
    # condense: worst observed error per (op,B) over all builds
    worst = {}
    for k, v in res.stats.items():
        kk = k.split(" ", 1)[1]
        worst[kk] = max(worst.get(kk, 0), v)
    res.stats = {"worst_observed_error_units_over_all_builds": worst}
    res.rule = ("N=1024 (the only degree the back-ends instantiate). E2 grid: {MultFFT,AddMulRFFT,SubMulRFFT,4-term Lagrange accumulation} x B in {1,2^6,2^9,2^15,2^20} x "
                "8 integer shapes (random, all +B, all -B, alternating, spike, sparse binary, ramp, binary) x 6 torus shapes (random, all INT32_MAX, all INT32_MIN, "
                "alternating MIN/MAX and MAX/MIN, spike) + transform round trip / Lagrange add, clear, set/add constant for 9 torus shapes x 6 constants; E1 rapidcheck over "
                "the same descriptor space with generated seeds, B also in {2,100,511,513,4096}, 1..8 accumulated terms with generated signs. Oracle: exact 64-bit "
                "schoolbook negacyclic product mod 2^32; |lib - exact| <= 2*max(1,B/2^9) units per product (x terms when accumulated), round trip <= 1, add/constant <= 2, clear = 0. "
                "All five back-ends x {optim, debug}; on debug builds each case runs in a forked child so a library assertion is a failure of the case. "
                "Non-trivial = structured shape on at least one side or B >= 2^9; distinct by hash / by construction.")
    res.assumptions = ["tolerances are the property's own (2 units up to 2^9, linear above); observed worst errors are reported in coverage.statistics"]
    return core.finish(res)
