"""C02 — circuits of any depth stay correct; output noise bounded and input-independent (DESIGN.md §3 C02)."""
import math
from .. import core, build
from ..core import Job

PREBUILD = [("c02", "optim", be) for be in build.BACKENDS] + [("c02", "debug", "spqlios-fma")]
BOUND = {128: 3.7e-3, 80: 4.7e-3}
MUXF = 1.35
Z = 6.0


def moments(a):
    n = a["n"]
    m = a["s1"] / n
    v = max(a["s2"] / n - m * m, 0.0) * (n / (n - 1.0) if n > 1 else 1.0)
    return n, m, math.sqrt(v)


def run(tier, seed):
    res = core.Result("C02", tier, seed)
    q = tier == "quick"
    jobs = []
    kb = 1 + (seed % 1000) * 100
    # spqlios-fma optim: the statistical bulk (one key per parameter set per job => 14 / 64 keys per parameter set)
    for k in range(14 if q else 64):
        jobs.append(Job("c02", "optim", "spqlios-fma", {"mode": "rc", "keys": 1, "keybase": kb + k, "maxops": 120 if q else 400},
                        rc_params=core.rc_params(core.splitmix(seed, k), 28 if q else 120), label="rc optim fma key%d" % k))
    # deep chains (depth = length >= 250): the "deep" input class of the independence test
    for k in range(4 if q else 16):
        jobs.append(Job("c02", "optim", "spqlios-fma", {"mode": "rc", "keys": 1, "keybase": kb + k, "maxops": 160 if q else 5000, "minsize": 250 if q else 1000,
                                                        "family": 1, "lambda": 128 if k % 2 == 0 else 80},
                        rc_params=core.rc_params(core.splitmix(seed, 400 + k), 5 if q else 6), label="deep chains %d" % k))
    for i, be in enumerate(build.BACKENDS[1:]):
        slow = be.startswith("nayuki")
        jobs.append(Job("c02", "optim", be, {"mode": "rc", "keys": 1, "keybase": kb + 50 + i, "maxops": 60},
                        rc_params=core.rc_params(core.splitmix(seed, 100 + i), (6 if slow else 12) if q else 200), label="rc optim %s" % be))
    jobs.append(Job("c02", "debug", "spqlios-fma", {"mode": "rc", "keys": 1, "keybase": kb + 60, "maxops": 60},
                    rc_params=core.rc_params(core.splitmix(seed, 200), 10 if q else 300), label="rc debug fma"))
    # the scalar (non-AVX2) code paths of the debug build get their own noise statistics: >= 300 outputs under one key and parameter set
    for r in range(3 if q else 8):
        jobs.append(Job("c02", "debug", "spqlios-fma", {"mode": "rc", "keys": 1, "keybase": kb + 60, "maxops": 60, "lambda": 128 if r % 4 != 3 else 80},
                        rc_params=core.rc_params(core.splitmix(seed, 210 + r), 12 if q else 60), label="rc debug fma stats %d" % r))
    if not q:
        for i, be in enumerate(build.BACKENDS[1:]):
            jobs.append(Job("c02", "debug", be, {"mode": "rc", "keys": 1, "keybase": kb + 70 + i, "maxops": 40},
                            rc_params=core.rc_params(core.splitmix(seed, 300 + i), 20 if be.startswith("nayuki") else 150), label="rc debug %s" % be))
    core.run_jobs(jobs)
    pooled = {}     # (config, key) -> acc
    for j in jobs:
        res.absorb(j)
        if not j.report:
            continue
        st = j.report.get("stats", {})
        for full, v in st.items():
            key, field = full.rsplit("/", 1)
            grp = "fma-optim" if (j.config, j.backend) == ("optim", "spqlios-fma") else "%s-%s" % (j.backend, j.config)
            a = pooled.setdefault((grp, key), {"n": 0, "s1": 0.0, "s2": 0.0, "mx": 0.0})
            if field == "mx":
                a["mx"] = max(a["mx"], v)
            else:
                a[field] += v
    report = {}

    def fail(why, sig):
        res.failures.append({"check": "c02", "config": {"build": "optim", "backend": "spqlios-fma"}, "case": None, "no_replay": True, "why": why, "sig": sig})

    total_outputs = 0
    for (grp, key), a in sorted(pooled.items()):
        if a["n"] < 2:
            continue
        n, m, s = moments(a)
        parts = key.split("/")
        if parts[0] == "st":
            lam, gc, ic = int(parts[1]), parts[2], parts[3]
            total_outputs += n
        else:
            lam, gc, ic = int(parts[1]), parts[3], "key%s" % parts[2]
        B = BOUND[lam] * (MUXF if gc == "mux" else 1.0)
        report["%s %s" % (grp, key)] = {"n": int(n), "mean": m, "stdev": s, "max_abs": a["mx"], "bound": B}
        if a["mx"] >= 3.0 / 64:
            fail("%s %s: |error| reached %.4f >= 3/64" % (grp, key, a["mx"]), "c02/stat/max")
        if n >= 300:
            if s > B * (1 + Z / math.sqrt(2 * (n - 1))):
                fail("%s %s: stdev of the output phase error %.3e over %d outputs exceeds the bound %.3e at %g sigma" % (grp, key, s, n, B, Z), "c02/stat/stdev")
            if abs(m) - Z * s / math.sqrt(n) > B / 4:
                fail("%s %s: |mean| of the output phase error %.3e over %d outputs exceeds bound/4 = %.3e at %g sigma" % (grp, key, abs(m), n, B / 4, Z), "c02/stat/mean")
    # pooled over input classes + input-independence (pairwise) on the fma-optim bulk
    for lam in (128, 80):
        for gc in ("bin", "mux"):
            cl = {ic: pooled.get(("fma-optim", "st/%d/%s/%s" % (lam, gc, ic))) for ic in ("fresh", "mid", "deep", "forgedmax")}
            cl = {k: v for k, v in cl.items() if v and v["n"] >= 400}
            tot = {"n": 0, "s1": 0.0, "s2": 0.0}
            for v in cl.values():
                for f in ("n", "s1", "s2"):
                    tot[f] += v[f]
            if tot["n"] >= 2:
                n, m, s = moments(tot)
                B = BOUND[lam] * (MUXF if gc == "mux" else 1.0)
                report["fma-optim pooled %d %s" % (lam, gc)] = {"n": int(n), "mean": m, "stdev": s, "bound": B}
                if n >= 300 and s > B * (1 + Z / math.sqrt(2 * (n - 1))):
                    fail("pooled %d %s: stdev %.3e over %d outputs exceeds %.3e" % (lam, gc, s, n, B), "c02/stat/stdev")
                if n >= 300 and abs(m) - Z * s / math.sqrt(n) > B / 4:
                    fail("pooled %d %s: |mean| %.3e over %d outputs exceeds %.3e" % (lam, gc, abs(m), n, B / 4), "c02/stat/mean")
            names = sorted(cl)
            for i in range(len(names)):
                for k in range(i + 1, len(names)):
                    ni, mi, si = moments(cl[names[i]])
                    nk, mk, sk = moments(cl[names[k]])
                    # Input independence with an equivalence margin.  The gadget truncation is a floor, so a part of the output variance (the
                    # term n/2 (N/2)^2 2^(-2 l Bgbit - 2)/3: 13 % of the total for the 128-bit set, 28 % for the 80-bit set) depends on the *position* p of
                    # the rotated phase; input classes with different phase distributions (e.g. phases forced to +-1/8 +-1/32) therefore differ
                    # legitimately by a few per cent in stdev (measured over 1.8e6 outputs: 4-7 %; analytic ceiling sqrt(1.28) - 1 = 13 %).  A
                    # difference is a violation only if it exceeds 15 % in stdev, or bound/4 in mean, by more than 6 estimator standard errors.
                    se_s = math.sqrt(1 / (2 * ni) + 1 / (2 * nk))
                    se_m = math.sqrt(si * si / ni + sk * sk / nk)
                    B = BOUND[lam] * (MUXF if gc == "mux" else 1.0)
                    zs = (abs(math.log(si / sk)) - math.log(1.15)) / se_s
                    zm = (abs(mi - mk) - B / 4) / se_m
                    report["independence %d %s %s-vs-%s" % (lam, gc, names[i], names[k])] = {"stdev_ratio": si / sk, "mean_difference": mi - mk, "z_beyond_15pct": zs, "z_beyond_bound_over_4": zm}
                    if zs > Z or zm > Z:
                        fail("output noise depends on the inputs: %d %s, classes %s (n=%d, mean %.3e, sd %.3e) vs %s (n=%d, mean %.3e, sd %.3e): z=%.1f/%.1f" %
                             (lam, gc, names[i], ni, mi, si, names[k], nk, mk, sk, zs, zm), "c02/stat/independence")
    res.stats = report
    res.extra["bootstrapped_outputs_measured"] = int(total_outputs)
    floor = 6000 if q else 100000
    if total_outputs < floor and not res.failures:
        res.harness_errors.append("statistics floor not met: %d outputs < %d" % (total_outputs, floor))
    res.rule = ("E1 rapidcheck, stateful/model-based: a case is a netlist = vector of ops (gate, in1, in2, in3, out) whose wire references are taken modulo the live wire count and whose "
                "output is a new wire or an existing one (in-place), so every subsequence is a valid netlist; families generated by construction: random, chains x<-g(x,y) (depth = length), "
                "balanced trees, fan-out, in-place accumulators, ripple-carry adders, comparators, MUX trees, and gates whose inputs are forged to the admissible maximum +-1/32 right before use. "
                "Oracle 1: plaintext interpreter after every step (decryption of every written wire, |phase error| < 3/64) and a final scan of all wires. Oracle 2 (E5): phase errors of all bootstrapped "
                "outputs pooled per (parameter set, gate class in {binary, MUX}, input class in {fresh, mid, deep>=50, forged-max}) and per key seed; one-sided z=6 tests: stdev <= bound "
                "(3.7e-3 / 4.7e-3, x1.35 MUX), |mean| <= bound/4 (pooled and per key), pairwise input-class independence (stdev ratio within 15 %, mean difference within bound/4, beyond 6 standard errors). Non-trivial = a netlist containing a gate whose inputs are "
                "gate outputs; distinct by case hash. evaluations counts netlists; coverage.bootstrapped_outputs_measured counts gate outputs.")
    res.assumptions = ["statistical tests are one-sided against the property's own bounds at 6 estimator standard deviations (p<1e-9 per statistic)",
                       "per-key mean test is sound because key-switching-key noise is recentred at key generation (mechanism named in the property)"]
    return core.finish(res)
