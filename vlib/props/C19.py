"""C19 — default parameter selection: thresholds, documented sets, structural constraints, margin
(DESIGN.md §3 C19).  E2 (all lambda in [-5,300] + extremes) with E3 (one process per lambda; rejection
is abort())."""
import json, math, os, signal, subprocess
from concurrent.futures import ThreadPoolExecutor
from .. import core, build

PREBUILD = [("c19", b, be) for b in ("optim", "debug") for be in build.BACKENDS]
SPEC = json.load(open(os.path.join(build.VERIF, "spec", "paramsets.json")))


def expected(label):
    s = dict(SPEC[label])
    if "ks_stdev_log2" in s:
        s["ks_stdev"] = 2.0 ** s.pop("ks_stdev_log2")
        s["bk_stdev"] = 2.0 ** s.pop("bk_stdev_log2")
    return s


def margins(p):
    """decoding margin in standard deviations under the library's noise formulas (average case)."""
    n, N, k, l, Bgbit, t, bb = p["n"], p["N"], p["k"], p["l"], p["Bgbit"], p["ks_t"], p["ks_basebit"]
    Bg = 2.0 ** Bgbit
    sbk, sks = p["bk_stdev"], p["ks_stdev"]
    v_br = n * (k + 1) * l * N * (Bg * Bg / 12.0) * sbk ** 2 + n * 0.5 * (1 + k * N / 2.0) * 2.0 ** (-2 * l * Bgbit) / 12.0
    v_ks = k * N * t * (1 - 2.0 ** -bb) * sks ** 2 + (k * N / 2.0) * 2.0 ** (-2 * t * bb) / 12.0
    v_ms = (1 + n / 2.0) / (12.0 * (2.0 * N) ** 2)
    v_gate = v_br + v_ks
    v_mux = 2 * v_br + v_ks
    out = {"sd_gate": math.sqrt(v_gate), "sd_mux": math.sqrt(v_mux)}
    worst = 1e9
    for name, vin in (("gate", v_gate), ("mux", v_mux)):
        and_m = 0.125 / math.sqrt(2 * vin + v_ms)            # AND-type: +-1/8 +-1/8 +- 1/8, margin 1/8
        xor_m = 0.25 / math.sqrt(8 * vin + v_ms)             # XOR-type: 2(a+b)+1/4, margin 1/4
        out["and_of_%s_sigmas" % name] = and_m
        out["xor_of_%s_sigmas" % name] = xor_m
        worst = min(worst, and_m, xor_m)
    out["worst_sigmas"] = worst
    return out


def check_fields(lam, p):
    """returns list of problems for an accepted lambda"""
    bad = []
    label = "80" if lam <= 80 else "128"
    e = expected(label)
    for f in ("n", "N", "k", "l", "Bgbit", "ks_t", "ks_basebit", "ks_stdev", "bk_stdev"):
        if p[f] != e[f]:
            bad.append("field %s = %r, documented %s-bit set has %r" % (f, p[f], label, e[f]))
    if e["security_bits"] < lam:
        bad.append("returned set is weaker (%d bits) than requested (%d)" % (e["security_bits"], lam))
    # derived fields
    Bg = 1 << p["Bgbit"]
    if p["Bg"] != Bg or p["halfBg"] != Bg // 2 or p["maskMod"] != Bg - 1 or p["kpl"] != (p["k"] + 1) * p["l"]:
        bad.append("derived gadget fields inconsistent: Bg=%s halfBg=%s maskMod=%s kpl=%s" % (p["Bg"], p["halfBg"], p["maskMod"], p["kpl"]))
    hh = [(1 << (32 - (i + 1) * p["Bgbit"])) & 0xffffffff for i in range(p["l"])]
    if p["h"] != hh:
        bad.append("gadget h = %s, expected %s" % (p["h"], hh))
    off = (sum(1 << (32 - (i + 1) * p["Bgbit"]) for i in range(p["l"])) * (Bg // 2)) & 0xffffffff
    if p["offset"] != off:
        bad.append("offset = %s, expected %s" % (p["offset"], off))
    if p["extracted_n"] != p["k"] * p["N"]:
        bad.append("extracted dimension %s != k*N" % p["extracted_n"])
    if p["extracted_alpha_min"] != p["bk_stdev"]:
        bad.append("extracted parameters carry a different noise level")
    # structural constraints the algorithms assume
    if p["N"] != 1024:
        bad.append("N=%s is not supported by the FFT back-ends (1024 only)" % p["N"])
    if p["l"] * p["Bgbit"] > 32 or p["ks_t"] * p["ks_basebit"] > 31 or p["l"] < 1 or p["ks_t"] < 1:
        bad.append("l*Bgbit or t*basebit out of range")
    if not (0 < p["ks_stdev"] < p["in_alpha_max"] <= 1.0 / 16) or not (0 < p["bk_stdev"] < p["tlwe_alpha_max"]):
        bad.append("noise interval inconsistent: %s %s %s %s" % (p["ks_stdev"], p["in_alpha_max"], p["bk_stdev"], p["tlwe_alpha_max"]))
    if p["in_alpha_max"] != e["max_stdev"] or p["tlwe_alpha_max"] != e["max_stdev"]:
        bad.append("alpha_max differs from the documented %s" % e["max_stdev"])
    if not p["second_call_equal"]:
        bad.append("two calls with the same lambda returned different sets")
    m = margins(p)
    if m["worst_sigmas"] < 12:
        bad.append("decoding margin %.1f sigma < 12 (%s)" % (m["worst_sigmas"], m))
    return bad, m


def probe(exe, lam):
    try:
        r = subprocess.run([exe, "--lambda=%d" % lam], stdout=subprocess.PIPE, stderr=subprocess.PIPE, timeout=60)
    except subprocess.TimeoutExpired:
        return lam, "timeout", None
    if r.returncode == 0:
        try:
            return lam, "ok", json.loads(r.stdout.decode())
        except Exception:
            return lam, "garbled", None
    return lam, ("SIGABRT" if r.returncode == -signal.SIGABRT else "rc=%d" % r.returncode), None


def probe_seq(exe, seq):
    try:
        r = subprocess.run([exe, "--seq=" + ",".join(str(x) for x in seq)], stdout=subprocess.PIPE, stderr=subprocess.PIPE, timeout=60)
    except subprocess.TimeoutExpired:
        return seq, "timeout", []
    if r.returncode != 0:
        return seq, "rc=%d" % r.returncode, []
    try:
        return seq, "ok", [json.loads(l) for l in r.stdout.decode().splitlines() if l.strip()]
    except Exception:
        return seq, "garbled", []


def judge_seq(seq, status, outs):
    if status != "ok" or len(outs) != len(seq):
        return ["sequence %s must be accepted; observed %s" % (seq, status)]
    bad = []
    for pos, (lam, p) in enumerate(zip(seq, outs)):
        b, _ = check_fields(lam, p)
        bad += ["request #%d (lambda=%d) of the in-process sequence %s: %s" % (pos + 1, lam, seq, x) for x in b]
    return bad


def sequences():
    base = [1, 40, 80, 81, 100, 128]
    out = [[a, b] for a in base for b in base]
    core4 = [1, 80, 81, 128]
    out += [[a, b, c] for a in core4 for b in core4 for c in core4]
    out += [[80, 128, 80, 128, 1, 81], [128, 80, 128, 80, 81, 1], list(range(1, 129)), list(range(128, 0, -1))]
    return out


def judge(lam, status, p):
    """(list of problems, signature)"""
    if lam <= 0 or lam > 128:
        if status != "SIGABRT":
            return ["lambda=%d must be rejected by abort(); observed %s%s" % (lam, status, "" if p is None else " n=%s" % p.get("n"))], "c19/not-rejected"
        return [], ""
    if status != "ok":
        return ["lambda=%d must be accepted; observed %s" % (lam, status)], "c19/not-accepted"
    bad, _ = check_fields(lam, p)
    return bad, "c19/fields"


def lambdas():
    return list(range(-5, 301)) + [-2 ** 31, -2 ** 31 + 1, -1000, 10 ** 6, 2 ** 31 - 1]


def replay(path):
    blob = json.load(open(path))
    exe = build.compile_harness("c19", blob["config"]["build"], blob["config"]["backend"])
    nf = 0
    if "seq" in blob["case"]:
        for _ in range(3):
            nf += 1 if judge_seq(*probe_seq(exe, blob["case"]["seq"])) else 0
        return nf, 3, ""
    for _ in range(3):
        lam, st, p = probe(exe, blob["case"]["lambda"])
        bad, _ = judge(lam, st, p)
        nf += 1 if bad else 0
    return nf, 3, ""


def run(tier, seed):
    res = core.Result("C19", tier, seed)
    cfgs = [("optim", "spqlios-fma"), ("debug", "spqlios-fma")]
    cfgs += [(b, be) for b in ("optim", "debug") for be in build.BACKENDS if be != "spqlios-fma"] if tier == "thorough" else \
            [("optim", "fftw"), ("debug", "nayuki-portable")]
    table = {}
    seen_nt = set()
    for (b, be) in cfgs:
        exe = build.compile_harness("c19", b, be)
        with ThreadPoolExecutor(max_workers=core.NCPU) as ex:
            results = list(ex.map(lambda L: probe(exe, L), lambdas()))
        prev_bits = 0
        for lam, st, p in results:
            res.evaluations += 1
            nt = lam in (0, 1, 80, 81, 128, 129) or abs(lam) > 300
            if nt:
                seen_nt.add((b, be, lam))
            bad, sig = judge(lam, st, p)
            if st == "ok" and p and 1 <= lam <= 128:
                bits = 80 if p["n"] == 500 else 128 if p["n"] == 630 else -1
                if -5 <= lam <= 300 and bits < prev_bits:
                    bad.append("selection not monotone at lambda=%d" % lam)
                prev_bits = max(prev_bits, bits)
                table.setdefault("%s/%s" % (b, be), {})[str(lam)] = bits
            if len(res.samples) < 8 and (nt or lam in (40, 100)):
                res.samples.append({"config": {"build": b, "backend": be}, "lambda": lam, "outcome": st,
                                    "fields": p if lam in (80, 128) else (None if p is None else {"n": p["n"]})})
            if bad:
                res.failures.append({"check": "c19", "config": {"build": b, "backend": be}, "case": {"lambda": lam},
                                     "why": "; ".join(bad), "sig": sig + "/%d" % lam})
        with ThreadPoolExecutor(max_workers=core.NCPU) as ex:
            sres = list(ex.map(lambda q: probe_seq(exe, q), sequences()))
        for seq, st, outs in sres:
            res.evaluations += 1
            seen_nt.add((b, be, tuple(seq)))
            bad = judge_seq(seq, st, outs)
            if len(res.samples) < 12 and len(seq) == 3 and seq[0] != seq[1]:
                res.samples.append({"config": {"build": b, "backend": be}, "sequence": seq, "outcome": st, "returned_n": [o.get("n") for o in outs]})
            if bad:
                res.failures.append({"check": "c19", "config": {"build": b, "backend": be}, "case": {"seq": seq},
                                     "why": "; ".join(bad[:3]), "sig": "c19/sequence/%s" % "-".join(str(x) for x in seq[:4])})
        res.per_config["%s/%s" % (b, be)] = {"evaluations": len(results) + len(sres)}
    for lab in ("80", "128"):
        e = expected(lab)
        e.update({"in_alpha_max": e["max_stdev"], "tlwe_alpha_max": e["max_stdev"]})
        res.stats["margin_sigmas_%s" % lab] = margins(e)
    res.exhaustive = True
    res.exhaustive_nontrivial = len(seen_nt)
    res.classes = {"accepted": sum(1 for L in lambdas() if 1 <= L <= 128) * len(cfgs), "rejected": sum(1 for L in lambdas() if not 1 <= L <= 128) * len(cfgs)}
    res.rule = ("E2: every lambda in [-5,300] plus INT32_MIN, INT32_MIN+1, -1000, 10^6, INT32_MAX, each in its own process (rejection is "
                "abort(): the oracle reads the exit status) on each listed build/back-end; accepted sets compared field by field with "
                "spec/paramsets.json (README table + CGGI16/19), derived fields recomputed, structural constraints, monotonicity, >=12-sigma "
                "margin from the noise formulas. Histories: every ordered pair from {1,40,80,81,100,128}, every triple from {1,80,81,128} and four longer sequences are requested within ONE process (earlier sets kept alive) and each answer is checked the same way. Non-trivial = lambda at or next to a threshold (0,1,80,81,128,129) or an extreme value, or an in-process sequence; "
                "distinct by construction (per configuration).")
    res.assumptions = ["documented table transcribed in spec/paramsets.json", "margin uses average-case variance formulas (C02 measures the real noise)"]
    return core.finish(res, custom_replay=replay)
