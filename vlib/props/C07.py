"""C07 — fresh ciphertexts and key rows carry exactly the configured noise, fresh masks; seeding (DESIGN.md §3 C07). E5 + E1."""
import math
from .. import core, build
from ..core import Job

PREBUILD = [("c07", "optim", "spqlios-fma"), ("c07", "debug", "spqlios-fma"), ("c07", "optim", "nayuki-portable"), ("c07", "optim", "fftw")]
Z = 8.0


def ref_moments(sigma):
    """second and fourth moment of trunc-toward-zero(N(0, sigma^2)), sigma in torus units (the implemented sampler law)"""
    if sigma > 400:
        m2 = sigma * sigma - sigma * math.sqrt(2 / math.pi) + 1.0 / 3
        return m2, 3.0
    Phi = lambda x: 0.5 * (1 + math.erf(x / math.sqrt(2)))
    m2 = m4 = 0.0
    k = 1
    while k < 14 * sigma + 4:
        p = Phi((k + 1) / sigma) - Phi(k / sigma)
        m2 += 2 * k * k * p
        m4 += 2 * k ** 4 * p
        k += 1
    return m2, m4 / (m2 * m2) if m2 > 0 else 3.0


def run(tier, seed):
    res = core.Result("C07", tier, seed)
    q = tier == "quick"
    jobs = []
    cnt = 300000 if q else 2000000
    for i, (b, be, n) in enumerate([("optim", "spqlios-fma", 12), ("optim", "spqlios-fma", 1), ("debug", "spqlios-fma", 40), ("optim", "nayuki-portable", 630), ("optim", "spqlios-fma", 500)]):
        jobs.append(Job("c07", b, be, {"mode": "lwe", "n": n, "count": cnt if n < 100 else cnt // 20, "seed": core.splitmix(seed, i)}, label="lwe n=%d %s" % (n, b)))
    for i, (be, k) in enumerate([("spqlios-fma", 1), ("spqlios-fma", 2), ("fftw", 1), ("nayuki-portable", 1)]):
        jobs.append(Job("c07", "optim", be, {"mode": "tlwe", "kk": k, "count": 20 if q else 400, "astep": 5 if q else 1, "tgsw_count": 4 if q else 40, "seed": core.splitmix(seed, 10 + i)}, label="tlwe %s k=%d" % (be, k)))
    nk = 4 if q else 16
    for lam in (128, 80):
        for s2 in range(nk):
            jobs.append(Job("c07", "optim", "spqlios-fma", {"mode": "keyset", "lambda": lam, "seed": core.splitmix(seed, 20 + s2) % 100000, "count": 20000 if q else 200000}, label="keyset %d #%d" % (lam, s2)))
        jobs.append(Job("c07", "optim", "spqlios-fma", {"mode": "keyset_seed", "lambda": lam, "seed": seed + 5}, label="keyset_seed %d" % lam))
        # key-generation history: a key set of the *other* parameter set is generated first in the same process
        jobs.append(Job("c07", "optim", "spqlios-fma", {"mode": "keyset", "lambda": lam, "first": 208 - lam, "seed": core.splitmix(seed, 90 + lam) % 100000, "count": 20000}, label="keyset %d after %d" % (lam, 208 - lam)))
    jobs.append(Job("c07", "optim", "fftw", {"mode": "keyset", "lambda": 128, "seed": seed % 1000 + 3, "bkrows": 100}, label="keyset fftw"))
    jobs.append(Job("c07", "debug", "spqlios-fma", {"mode": "keyset", "lambda": 80, "seed": seed % 1000 + 4, "bkrows": 60, "count": 5000}, label="keyset debug"))
    for i, b in enumerate(("optim", "debug")):
        jobs.append(Job("c07", b, "spqlios-fma", {"mode": "kslayouts", "nin": 8192 if q else 65536, "seed": core.splitmix(seed, 95 + i) % 100000}, label="kslayouts %s" % b))
    jobs.append(Job("c07", "optim", "spqlios-fma", {"mode": "keys", "count": 256 if q else 4096, "seed": seed}, label="keys"))
    for k in range(2):
        jobs.append(Job("c07", "optim" if k == 0 else "debug", "spqlios-fma", {"mode": "seeding"}, rc_params=core.rc_params(core.splitmix(seed, 50 + k), 80000 if q else 800000), label="seeding %d" % k))
    core.run_jobs(jobs)
    report = {}
    nstat = 0

    def fail(why, sig):
        res.failures.append({"check": "c07", "config": {"build": "optim", "backend": "spqlios-fma"}, "case": None, "no_replay": True, "why": why, "sig": sig})

    alpha_of = {"128": (2.0 ** -15, 2.0 ** -25), "80": (2.44e-5, 7.18e-9)}
    for j in jobs:
        res.absorb(j)
        if not j.report:
            continue
        st = j.report.get("stats", {})
        groups = sorted(set(k.rsplit("/", 1)[0] for k in st if k.endswith("/s2")))
        for g in groups:
            M = st[g + "/n"]
            if M < 1000:
                continue
            kind, tag = g.split("/")[0], g.split("/")[1]
            if tag.startswith("2^-"):
                alpha = 2.0 ** -int(tag[3:])
            else:
                alpha = alpha_of[tag][1] if kind == "bkrow" else alpha_of[tag][0]
            sigma = alpha * 2.0 ** 32
            m2, kref = ref_moments(sigma)
            mean = st[g + "/s1"] / M
            var = st[g + "/s2"] / M - mean * mean
            kur = (st[g + "/s4"] / M) / ((st[g + "/s2"] / M) ** 2) if st[g + "/s2"] > 0 else 0
            fftcls = kind in ("tlwe", "tlweT", "tgsw", "bkrow")   # b = a*s through the FFT product: +-1 unit of rounding per coefficient
            rel = Z * math.sqrt(max(kref - 1, 1.0) / M)
            lo, hi = m2 * (1 - rel), (m2 + (1.0 if fftcls else 0.0)) * (1 + rel)
            key = "%s %s" % (j.label, g)
            report[key] = {"samples": int(M), "sigma_units": sigma, "var": var, "ref_var": m2, "mean": mean, "kurtosis": kur, "ref_kurtosis": kref}
            nstat += 1
            if not (lo <= var <= hi):
                fail("%s: error variance %.6g units^2 over %d samples, configured noise gives %.6g (accepted [%.6g, %.6g]); stdev ratio %.4f" % (key, var, M, m2, lo, hi, math.sqrt(var / m2)), "c07/variance/%s" % kind)
            if abs(mean) > Z * math.sqrt(m2 / M) + (0.1 if fftcls else 0.0):
                fail("%s: error mean %.4g units over %d samples exceeds %g sigma (%.4g)" % (key, mean, M, Z, Z * math.sqrt(m2 / M)), "c07/mean/%s" % kind)
            if kind != "ksrow" and (not fftcls or sigma > 50) and abs(kur - kref) > Z * math.sqrt(24.0 / M) * max(1.0, kref / 3):
                fail("%s: kurtosis %.3f, the Gaussian sampler law gives %.3f" % (key, kur, kref), "c07/kurtosis/%s" % kind)
            if kind == "ksrow":
                # recentring: the population mean of all key-switching rows is ~0 (only the truncation of each entry remains)
                if abs(mean) > Z * math.sqrt(1.0 / (3 * M)) + 1e-9:
                    fail("%s: population mean of the key-switching row errors is %.4f units (recentred noise gives |mean| <= %.4f)" % (key, mean, Z * math.sqrt(1.0 / (3 * M))), "c07/ks-recentring")
                if st.get(g + "/nontrivial_h0", 0):
                    fail("%s: %d digit-0 rows are not the trivial zero sample" % (key, st[g + "/nontrivial_h0"]), "c07/ks-h0")
        for mk in sorted(set(k.rsplit("/", 1)[0] for k in st if k.startswith("mask/") and k.endswith("/n"))):
            n = st[mk + "/n"]
            if n < 5000:
                continue
            exp = 4 * n / 256.0
            chi = sum((st["%s/byte%d" % (mk, i)] - exp) ** 2 / exp for i in range(256))
            exp4 = n / 16.0
            chi4 = sum((st["%s/top%d" % (mk, i)] - exp4) ** 2 / exp4 for i in range(16))
            corr = [st["%s/lag%d" % (mk, l)] / n * 12 for l in range(1, 9)]
            key = "%s %s" % (j.label, mk)
            report[key] = {"words": int(n), "chi2_bytes_255dof": chi, "chi2_top4_15dof": chi4, "max_lag_corr": max(abs(c) for c in corr), "distinct_fraction": st[mk + "/distinct"] / max(st[mk + "/words"], 1)}
            nstat += 1
            if abs(chi - 255) > Z * math.sqrt(510) or abs(chi4 - 15) > Z * math.sqrt(30):
                fail("%s: mask words are not uniform (chi2 bytes %.1f vs 255, top bits %.1f vs 15)" % (key, chi, chi4), "c07/mask-uniform")
            if max(abs(c) for c in corr) > Z / math.sqrt(n):
                fail("%s: serial correlation of mask words %.4g exceeds %g/sqrt(n)" % (key, max(abs(c) for c in corr), Z), "c07/mask-correlation")
            if st[mk + "/distinct"] < 0.99 * st[mk + "/words"]:
                fail("%s: only %d distinct mask words among %d" % (key, st[mk + "/distinct"], st[mk + "/words"]), "c07/mask-distinct")
        for tag in ("128", "80"):
            if ("key/%s/nonbinary" % tag) in st and st["key/%s/nonbinary" % tag]:
                fail("%s: secret key entries outside {0,1}" % j.label, "c07/key-binary")
        if "keys/lwe_total" in st:
            for nm in ("lwe", "ring"):
                w, tot = st["keys/%s_weight" % nm], st["keys/%s_total" % nm]
                report["%s %s key weight" % (j.label, nm)] = {"ones": int(w), "entries": int(tot)}
                if abs(w - tot / 2) > Z * math.sqrt(tot) / 2:
                    fail("%s keys are not balanced: %d ones among %d entries" % (nm, w, tot), "c07/key-balance")
            if st["keys/nonbinary"]:
                fail("generated keys contain entries outside {0,1}", "c07/key-binary")
            if st["keys/distinct"] != st["keys/count"]:
                fail("key generation repeated a key", "c07/key-distinct")
    # pooled weights of the default key sets
    res.stats = report
    res.extra["statistics_tested"] = nstat
    res.exhaustive_nontrivial = max(res.exhaustive_nontrivial, 0)
    res.rule = ("E5: exact errors (phase - message, integer arithmetic with the secret keys, no FFT in the oracle) of fresh LWE encryptions at every alpha = 2^-5..2^-30 (dimensions 1, 12, 40, 500, 630), TLWE polynomial / "
                "constant and TGSW encryptions (N=1024, k in {1,2}, three back-ends), gate-API encryptions, every non-zero-digit row of the key-switching key and every coefficient of every bootstrapping-key row of generated "
                "default key sets (both parameter sets, several seeds, also after a key set of the other parameter set was generated in the same process), and every row of key-switching keys made by lweCreateKeySwitchKey for the small digit layouts (t,basebit) in {(1,1),(2,1),(1,2),(3,1),(2,2)} (1..6 rows per source coefficient, 8192 source coefficients, one noise level each). Reference law = the implemented sampler, trunc-toward-zero(N(0,alpha^2) 2^32), whose exact discrete variance and kurtosis the driver computes; tests at 8 "
                "estimator standard deviations: variance two-sided (upper bound +1 unit^2 where b passes through the FFT product), mean, kurtosis, population mean of key-switching rows (recentring), digit-0 rows trivial, "
                "chi-square of mask bytes / top bits, lag 1..8 correlation, distinct words, key entries in {0,1} and balanced. E1 rapidcheck (seeding): for generated histories of encryptions / key generations / raw sampler draws, "
                "re-seeding with the same seed reproduces key and ciphertext bytes whatever ran before and whichever thread draws (seed on one thread, draw on another), a different seed differs, two encryptions of one message differ, re-seeding between two encryptions reproduces the first; "
                "key-set generation twice with one seed is byte-identical. Non-trivial = a statistic over >= 1e4 samples with alpha > 0 (counted) or a seeding case with a non-empty history (hashed).")
    res.assumptions = ["8-sigma acceptance regions around the implemented sampler law (p < 1e-14 per statistic)", "heavy tails handled through the reference kurtosis"]
    return core.finish(res)
