"""C20 — all FFT back-end libraries are drop-in interchangeable and usable from C (DESIGN.md §3 C20).
E2: differential enumeration over (10 libraries) x (public headers) x (public structures and fields);
(d) seeded generation of gate-API programs rendered as C99 and as C++11, linked against every variant."""
import os, re, subprocess, json, random, tempfile, shutil, hashlib
from concurrent.futures import ThreadPoolExecutor
from .. import core, build

PREBUILD = []
INC = lambda: os.path.join(build.REPO, "src", "include")
CXX_ONLY = {"tfhe_garbage_collector.h", "tfhe_generic_streams.h", "tfhe_generic_templates.h"}   # declare themselves C++-internal


def sh(cmd, **kw):
    return subprocess.run(cmd, stdout=subprocess.PIPE, stderr=subprocess.STDOUT, text=True, **kw)


def export_names():
    """names declared EXPORT in the public headers, extracted from the preprocessed C++ view"""
    src = "#include <tfhe.h>\n#include <tfhe_io.h>\n#include <polynomials_arithmetic.h>\n#include <lagrangehalfc_arithmetic.h>\n#include <numeric_functions.h>\n#include <lwe-functions.h>\n#include <tlwe_functions.h>\n#include <tgsw_functions.h>\n"
    r = subprocess.run(["g++", "-std=gnu++11", "-E", "-P", "-x", "c++", "-I", INC(), "-"], input=src, stdout=subprocess.PIPE, stderr=subprocess.PIPE, text=True)
    text = re.sub(r"\s+", " ", r.stdout)
    names = set()
    for m in re.finditer(r'extern "C" (?!\{)([^;{()]*?)\b([A-Za-z_][A-Za-z0-9_]*) ?\(', text):
        if not m.group(2).startswith("__"):
            names.add(m.group(2))
    return sorted(names)


def struct_names():
    txt = open(os.path.join(INC(), "tfhe_core.h")).read()
    return sorted(set(re.findall(r"^struct (\w+);", txt, re.M)))


def nm_symbols(lib):
    r = sh(["nm", "-D", "--defined-only", lib])
    unm, mangled = set(), set()
    for line in r.stdout.splitlines():
        p = line.split()
        if len(p) >= 3 and p[1] in ("T", "W", "t"):
            (mangled if p[2].startswith("_Z") else unm).add(p[2])
    return unm, mangled


def layout(objfile, structs):
    """{struct: (size, [(offset,size,field decl)...])} via gdb ptype /o"""
    cmds = []
    for s in structs:
        cmds += ["-ex", "echo @@%s\\n" % s, "-ex", "ptype /o struct %s" % s]
    r = sh(["gdb", "-batch", "-nx"] + cmds + [objfile])
    out = {}
    cur = None
    for line in r.stdout.splitlines():
        if line.startswith("@@"):
            cur = line[2:].strip()
            out[cur] = {"size": None, "fields": []}
            continue
        if cur is None:
            continue
        m = re.match(r"/\*\s*(\d+)(?::\s*\d+)?\s*\|\s*(\d+)\s*\*/\s*(.*?);\s*$", line)
        if m:
            decl = re.sub(r"\b(const|struct)\b", "", m.group(3))
            decl = re.sub(r"\s+", "", decl)
            if "(" in decl:      # member functions never appear in ptype /o with offsets; be safe
                continue
            out[cur]["fields"].append((int(m.group(1)), int(m.group(2)), decl))
        m = re.search(r"/\* total size \(bytes\):\s*(\d+) \*/", line)
        if m:
            out[cur]["size"] = int(m.group(1))
    return out


GATES = ["NAND", "OR", "AND", "XOR", "XNOR", "NOR", "ANDNY", "ANDYN", "ORNY", "ORYN"]


def render(prog, cxx):
    """a generated gate-API program as C99 or C++11 source; prints decryptions and FNV hashes of key / ciphertext bytes / exports"""
    L = []
    L.append('#include <stdio.h>\n#include <stdlib.h>\n#include <stdint.h>\n#include <tfhe.h>\n#include <tfhe_io.h>')
    L.append("static uint64_t fnv(const void* p, size_t n, uint64_t h) { const unsigned char* c = (const unsigned char*)p; size_t i; for (i = 0; i < n; i++) { h ^= c[i]; h *= 1099511628211ULL; } return h; }")
    L.append("int main(void) {")
    L.append("  uint32_t seed[2] = {%du, %du}; int i; uint64_t h;" % (prog["seed"] & 0xffffffff, 12345))
    L.append("  tfhe_random_generator_setSeed(seed, 2);")
    L.append("  TFheGateBootstrappingParameterSet* params = new_default_gate_bootstrapping_parameters(%d);" % prog["lambda"])
    L.append("  TFheGateBootstrappingSecretKeySet* sk = new_random_gate_bootstrapping_secret_keyset(params);")
    L.append("  const TFheGateBootstrappingCloudKeySet* ck = &sk->cloud;")
    L.append("  const LweParams* lp = params->in_out_params; const int n = lp->n;")
    L.append('  printf("n %d N %d k %d l %d t %d\\n", n, params->tgsw_params->tlwe_params->N, params->tgsw_params->tlwe_params->k, params->tgsw_params->l, params->ks_t);')
    L.append('  printf("lwekey %016llx\\n", (unsigned long long)fnv(sk->lwe_key->key, 4 * (size_t)n, 14695981039346656037ULL));')
    L.append('  printf("ringkey %016llx\\n", (unsigned long long)fnv(sk->tgsw_key->key[0].coefs, 4 * (size_t)sk->tgsw_key->key[0].N, 14695981039346656037ULL));')
    L.append('  printf("ks00 %016llx\\n", (unsigned long long)fnv(ck->bk->ks->ks[0][0][1].a, 4 * (size_t)n, 14695981039346656037ULL));')
    nw = prog["inputs"] + len(prog["gates"]) + 1
    L.append("  LweSample* w = new_gate_bootstrapping_ciphertext_array(%d, params);" % nw)
    for i, b in enumerate(prog["bits"]):
        L.append("  bootsSymEncrypt(w + %d, %d, sk);" % (i, b))
    L.append('  h = 14695981039346656037ULL; for (i = 0; i < %d; i++) { h = fnv(w[i].a, 4 * (size_t)n, h); h = fnv(&w[i].b, 4, h); } printf("fresh %%016llx\\n", (unsigned long long)h);' % prog["inputs"])
    k = prog["inputs"]
    for (g, a, b, c) in prog["gates"]:
        if g == "MUX":
            L.append("  bootsMUX(w + %d, w + %d, w + %d, w + %d, ck);" % (k, a, b, c))
        elif g == "NOT":
            L.append("  bootsNOT(w + %d, w + %d, ck);" % (k, a))
        else:
            L.append("  boots%s(w + %d, w + %d, w + %d, ck);" % (g, k, a, b))
        L.append('  printf("wire %d = %%d\\n", bootsSymDecrypt(w + %d, sk));' % (k, k))
        k += 1
    # a C program reads the structures directly: field access through the C view of the headers
    L.append('  printf("var %.3e\\n", w[0].current_variance);')
    L.append('  { FILE* f = tmpfile(); long len; export_gate_bootstrapping_ciphertext_toFile(f, w + 0, params); len = ftell(f); printf("ctlen %ld\\n", len); fclose(f); }')
    L.append('  { FILE* f = tmpfile(); long len; export_tfheGateBootstrappingParameterSet_toFile(f, params); len = ftell(f); printf("paramslen %ld\\n", len); fclose(f); }')
    L.append("  delete_gate_bootstrapping_ciphertext_array(%d, w); delete_gate_bootstrapping_secret_keyset(sk); delete_gate_bootstrapping_parameters(params);" % nw)
    L.append("  return 0;\n}")
    return "\n".join(L) + "\n"


def gen_program(rng):
    ninp = rng.randint(2, 4)
    prog = {"seed": rng.getrandbits(31), "lambda": rng.choice([128, 80]), "inputs": ninp, "bits": [rng.randint(0, 1) for _ in range(ninp)], "gates": []}
    for q in range(rng.randint(3, 10)):
        live = ninp + q
        g = rng.choice(GATES + ["MUX", "NOT"])
        prog["gates"].append((g, rng.randrange(live), rng.randrange(live), rng.randrange(live)))
    return prog


def model(prog):
    w = list(prog["bits"])
    T = {"NAND": lambda a, b: 1 - (a & b), "OR": lambda a, b: a | b, "AND": lambda a, b: a & b, "XOR": lambda a, b: a ^ b, "XNOR": lambda a, b: 1 - (a ^ b), "NOR": lambda a, b: 1 - (a | b),
         "ANDNY": lambda a, b: (1 - a) & b, "ANDYN": lambda a, b: a & (1 - b), "ORNY": lambda a, b: (1 - a) | b, "ORYN": lambda a, b: a | (1 - b)}
    for (g, a, b, c) in prog["gates"]:
        w.append((w[b] if w[a] else w[c]) if g == "MUX" else (1 - w[a]) if g == "NOT" else T[g](w[a], w[b]))
    return w


def run(tier, seed):
    res = core.Result("C20", tier, seed)
    q = tier == "quick"
    libs = {}
    for b in ("optim", "debug"):
        for be in build.BACKENDS:
            libs[(b, be)] = build.lib_path(b, be)
    work = tempfile.mkdtemp(prefix="c20-", dir=build.BUILD_ROOT)

    def fail(why, sig, case=None):
        res.failures.append({"check": "c20", "config": {"build": "all", "backend": "all"}, "case": case, "no_replay": True, "why": why, "sig": sig})

    try:
        # (a) symbol surface: every EXPORT-declared name is defined (unmangled) in all ten libraries or in none
        names = export_names()
        tables = {k: nm_symbols(v) for k, v in libs.items()}
        absent_everywhere, undeclared = [], {}
        for nme in names:
            present = [k for k, (unm, _) in tables.items() if nme in unm]
            res.evaluations += len(libs)
            if 0 < len(present) < len(libs):
                missing = sorted("%s/%s" % k for k in libs if k not in present)
                fail("public API function %s is defined in %d of %d library variants (missing in: %s)" % (nme, len(present), len(libs), ", ".join(missing)), "c20/symbols/%s" % nme, {"symbol": nme})
            if not present:
                absent_everywhere.append(nme)
                pat = re.compile(r"_Z\w*?%d%s" % (len(nme), nme))
                hits = sorted("%s/%s" % k for k, (_, mg) in tables.items() if any(pat.search(x) for x in mg))
                if hits:
                    fail("%s is declared EXPORT (C linkage) but defined only with C++ linkage in %s" % (nme, ", ".join(hits)), "c20/mangled/%s" % nme, {"symbol": nme})
        for k, (unm, _) in tables.items():
            undeclared["%s/%s" % k] = len(unm - set(names))
        if len(names) < 300:
            res.harness_errors.append("EXPORT extraction found only %d names" % len(names))
        res.extra["export_declared_names"] = len(names)
        res.extra["declared_but_defined_nowhere"] = absent_everywhere
        res.extra["undeclared_unmangled_symbols_per_library (not compared)"] = undeclared
        # (b) every public header compiles alone as C99 and as C++11
        headers = sorted(f for f in os.listdir(INC()) if f.endswith(".h"))
        pub = [h for h in headers if h not in CXX_ONLY]
        for h in pub:
            for lang, cc, std in (("c", "gcc", "-std=c99"), ("c++", "g++", "-std=gnu++11")):
                src = os.path.join(work, "hdr_%s.%s" % (h.replace(".", "_"), "c" if lang == "c" else "cpp"))
                open(src, "w").write('#include <%s>\nint unused_%s;\n' % (h, lang.replace("+", "p")))
                r = sh([cc, std, "-Wall", "-Werror", "-fsyntax-only", "-I", INC(), src])
                res.evaluations += 1
                if r.returncode != 0:
                    fail("public header %s does not compile alone as %s:\n%s" % (h, "C99" if lang == "c" else "C++11", r.stdout[-600:]), "c20/header/%s/%s" % (h, lang), {"header": h, "language": lang})
        # (c) layouts: identical size and field offsets for every public structure in the C and the C++ view
        structs = struct_names()
        inc_all = "".join("#include <%s>\n" % h for h in pub)
        uses = "".join("struct %s *use_%s;\n" % (s, s) for s in structs)
        for lang, cc, std, ext in (("c", "gcc", "-std=c99", "c"), ("cxx", "g++", "-std=gnu++11", "cpp")):
            open(os.path.join(work, "layout.%s" % ext), "w").write(inc_all + uses)
            r = sh([cc, std, "-g", "-fno-eliminate-unused-debug-types", "-c", "-I", INC(), os.path.join(work, "layout.%s" % ext), "-o", os.path.join(work, "layout_%s.o" % lang)])
            if r.returncode != 0:
                res.harness_errors.append("layout TU failed to compile (%s): %s" % (lang, r.stdout[-400:]))
        lc, lx = layout(os.path.join(work, "layout_c.o"), structs), layout(os.path.join(work, "layout_cxx.o"), structs)
        nfields = 0
        for s in structs:
            a, b = lc.get(s, {"size": None, "fields": []}), lx.get(s, {"size": None, "fields": []})
            res.evaluations += 1
            if a["size"] is None and b["size"] is None:
                continue   # opaque everywhere (declared only)
            nfields += len(a["fields"])
            if a["size"] != b["size"] or [(o, z) for o, z, _ in a["fields"]] != [(o, z) for o, z, _ in b["fields"]]:
                fail("struct %s: C view has size %s and fields %s; C++ view has size %s and fields %s" % (s, a["size"], a["fields"], b["size"], b["fields"]), "c20/layout/%s" % s, {"struct": s})
        res.extra["structures_compared"] = len(structs)
        res.extra["fields_compared"] = nfields
        if nfields < 40:
            res.harness_errors.append("layout extraction found only %d fields" % nfields)
        # (d) generated programs: C99 vs C++11 rendering x every library variant
        rng = random.Random(seed * 7919 + 20)
        nprog = 5 if q else 30
        variants = [("optim", be) for be in build.BACKENDS] + ([("debug", "spqlios-fma"), ("debug", "fftw")] if q else [("debug", be) for be in build.BACKENDS])
        for pi in range(nprog):
            prog = gen_program(rng)
            want = model(prog)
            outs = {}
            for lang in ("c", "cxx"):
                open(os.path.join(work, "prog%d_%s.%s" % (pi, lang, "c" if lang == "c" else "cpp")), "w").write(render(prog, lang != "c"))
            def build_run(arg):
                lang, (b, be) = arg
                ext, cc, std = ("c", "gcc", "-std=c99") if lang == "c" else ("cpp", "g++", "-std=gnu++11")
                src = os.path.join(work, "prog%d_%s.%s" % (pi, lang, ext))
                exe = os.path.join(work, "prog%d_%s_%s_%s" % (pi, lang, b, be))
                libdir = os.path.dirname(libs[(b, be)])
                r = sh([cc, std, "-O1", "-I", INC(), src, "-o", exe, "-L", libdir, "-ltfhe-" + be, "-Wl,-rpath," + libdir, "-lm"] + (["-lstdc++"] if lang == "c" else []))
                if r.returncode != 0:
                    return arg, None, "does not build/link: " + r.stdout[-500:]
                try:
                    p = subprocess.run([exe], stdout=subprocess.PIPE, stderr=subprocess.STDOUT, text=True, timeout=1200)
                except subprocess.TimeoutExpired:
                    return arg, None, "timeout"
                return arg, p.stdout if p.returncode == 0 else None, "exit status %s: %s" % (p.returncode, p.stdout[-300:])
            with ThreadPoolExecutor(max_workers=core.NCPU) as ex:
                for arg, out, err in ex.map(build_run, [(lang, v) for v in variants for lang in ("c", "cxx")]):
                    res.evaluations += 1
                    if out is None:
                        fail("generated %s program fails on %s/%s: %s" % (arg[0], arg[1][0], arg[1][1], err), "c20/program/%s" % arg[0], {"program": prog})
                    outs[arg] = out
            case = {"program": prog}
            for v in variants:
                a, b = outs.get(("c", v)), outs.get(("cxx", v))
                if a is not None and b is not None and a != b:
                    fail("the C99 and the C++11 rendering of the same program print different results on %s/%s:\nC:\n%s\nC++:\n%s" % (v[0], v[1], a[-600:], b[-600:]), "c20/c-vs-cxx", case)
            # across variants: decryptions (= plaintext model) and everything that does not pass through the FFT must agree
            ref = None
            for v in variants:
                o = outs.get(("c", v))
                if o is None:
                    continue
                dec = [int(x.split("=")[1]) for x in o.splitlines() if x.startswith("wire ")]
                if dec != want[prog["inputs"]:]:
                    fail("program decrypts to %s on %s/%s, plaintext model says %s" % (dec, v[0], v[1], want[prog["inputs"]:]), "c20/program/decrypt", case)
                nonfft = [x for x in o.splitlines() if x.split()[0] in ("n", "lwekey", "fresh", "ctlen", "paramslen", "var")]
                if ref is None:
                    ref = (v, nonfft)
                elif nonfft != ref[1]:
                    fail("back-end independent outputs differ between %s/%s and %s/%s:\n%s\nvs\n%s" % (ref[0][0], ref[0][1], v[0], v[1], ref[1], nonfft), "c20/variants-disagree", case)
            if len(res.samples) < 6:
                res.samples.append({"program": prog, "expected_wires": want[prog["inputs"]:]})
        res.samples.append({"symbol_check": "e.g. %s" % names[:5], "structures": structs[:6]})
        res.exhaustive = True
        res.exhaustive_nontrivial = len(names) + nfields + nprog
        res.classes = {"export_names": len(names), "headers": len(pub), "structures": len(structs), "fields": nfields, "generated_programs": nprog, "library_variants": len(libs)}
    finally:
        shutil.rmtree(work, ignore_errors=True)
    res.rule = ("E2 differential enumeration: (a) every name declared EXPORT in the public headers (extracted from the preprocessed C++ view) x all ten libraries (5 back-ends x {optim, debug}): defined unmangled in all or in none, never only "
                "mangled; (b) every public header (all installed headers except the three that declare themselves C++-internal) compiled alone as -std=c99 and -std=gnu++11 with -Wall -Werror; (c) every structure forward-declared in tfhe_core.h: "
                "(offset, size) of every field and the total size from gdb 'ptype /o' on a C99 and a C++11 object, must be equal; (d) seeded generation of gate-API programs (keygen with fixed seed, encrypt, 3..10 gates incl. MUX/NOT, decrypt, "
                "exports, direct field reads) rendered as C99 and as C++11, linked against each variant: identical output per variant, decryptions equal to the plaintext model, back-end independent bytes (keys, fresh ciphertexts, export "
                "lengths) equal across variants. Non-trivial = every symbol, field and program (distinct by construction).")
    res.assumptions = ["symbols that no public header declares (back-end internals, intVecSubTo_avx) are listed, not compared", "layouts are those of this compiler/ABI (x86-64 SysV)"]
    return core.finish(res)
