"""C13 — torus rounding / modulus switch round to nearest exactly (DESIGN.md §3 C13)."""
from .. import core
from ..core import Job

LISTED = [2, 3, 4, 5, 7, 8, 16, 1000, 1024, 2048, 4096, 32768]


def m_ranges(parts, lo=2, hi=32768):
    """split [lo,hi] into ranges of roughly equal sum(M) (work is ~linear in M per M)"""
    total = sum(range(lo, hi + 1))
    out, acc, start = [], 0, lo
    for M in range(lo, hi + 1):
        acc += M
        if acc >= total / parts and len(out) < parts - 1:
            out.append((start, M))
            start, acc = M + 1, 0
    out.append((start, hi))
    return out


def run(tier, seed):
    res = core.Result("C13", tier, seed)
    jobs = []
    sweepM = [2048, 3, 1000] if tier == "quick" else LISTED
    builds = ["optim", "debug"]
    for M in sweepM:
        for k in range(16):
            lo, hi = k << 28, (k + 1) << 28
            jobs.append(Job("c13", "optim", "spqlios-fma", {"mode": "sweep", "M": M, "lo": lo, "hi": hi},
                            label="sweep M=%d [%d,%d)" % (M, lo, hi)))
    if tier == "thorough":  # debug build (different code generation of the 64-bit arithmetic) for the two key moduli
        for M in (2048, 1000):
            for k in range(16):
                jobs.append(Job("c13", "debug", "spqlios-fma", {"mode": "sweep", "M": M, "lo": k << 28, "hi": (k + 1) << 28}))
    for b in builds:
        for (a, z) in m_ranges(16 if b == "optim" else 16):
            jobs.append(Job("c13", b, "spqlios-fma", {"mode": "boundary", "Mlo": a, "Mhi": z}))
        jobs.append(Job("c13", b, "spqlios-fma", {"mode": "pow2", "seed": seed}))
        n = 200000 if tier == "quick" else 5000000
        jobs.append(Job("c13", b, "spqlios-fma", {"mode": "rc"}, rc_params=core.rc_params(core.splitmix(seed, 13 + len(b)), n)))
    for k in range(16):
        jobs.append(Job("c13", "optim", "spqlios-fma", {"mode": "conv", "lo": k << 28, "hi": (k + 1) << 28, "seed": seed}))
    if tier == "thorough":
        for k in range(16):
            jobs.append(Job("c13", "debug", "spqlios-fma", {"mode": "conv", "lo": k << 28, "hi": (k + 1) << 28, "seed": seed + 1}))
    # the numeric functions live in the back-end independent core; one other back-end as a cross-check of that claim
    jobs.append(Job("c13", "optim", "fftw", {"mode": "boundary", "Mlo": 2040, "Mhi": 2056}))
    core.run_jobs(jobs)
    for j in jobs:
        res.absorb(j)
    # E4: coverage-guided campaign with the same oracle inside the target (value profile finds a = N, 2N-1, tie phases)
    core.run_fuzz(res, "fz_c13", 12 if tier == "quick" else 600, 2 if tier == "quick" else 8, seed, "C13")
    res.exhaustive = True
    # the boundary enumeration re-visits tie-adjacent phases of the swept moduli: do not count them twice
    res.exhaustive_nontrivial -= sum(9 * M + 7 for M in sweepM) * (2 if tier == 'thorough' else 1)
    res.rule = ("E2: every phase in [0,2^32) for M in %s; for EVERY M in [2,2^15] every tie point (r+1/2)*2^32/M with offsets -2..+3, "
                "every grid point +-1, the wrap/extreme phases and every mu in [0,M) (encode->switch round trip); every power of two "
                "2..2^30 with tie/boundary sets; all 2^32 torus values for dtot32(t32tod(x))==x and every 64th for periodicity with "
                "a seeded integer shift |k|<=2^20; E1 (rapidcheck) random (M, phase-near-tie / random phase / mu / shift). "
                "Non-trivial = phase within 2 units of a tie point or of the wrap (counted, distinct by construction in the "
                "enumerations; hashed in the rapidcheck part); enc/periodicity cases count as non-trivial when mu/k != 0. "
                "M = 2^31 is not representable in the int32_t Msize parameter and is outside the input domain." % sweepM)
    res.assumptions = ["oracle: 128-bit integer rounding relation |M*phase - r*2^32| <= 2^31 (mod M*2^32), ties accepted either way",
                       "numeric-functions.cpp is back-end independent (same object in all five libraries); spot-checked on fftw"]
    return core.finish(res)

PREBUILD = [("c13", "optim", "spqlios-fma"), ("c13", "debug", "spqlios-fma"), ("c13", "optim", "fftw")]
