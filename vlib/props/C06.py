"""C06 — homomorphic evaluation is deterministic, thread-safe and history-independent (DESIGN.md §3 C06)."""
from .. import core, build
from ..core import Job

# reference and workload children perturb the allocator differently (mallopt M_PERTURB), so MALLOC_PERTURB_ from the driver is irrelevant here
PREBUILD = [("c06", "optim", be) for be in build.BACKENDS] + [("c06", "debug", "spqlios-fma"), ("c06", "debug", "fftw"), ("c06", "tsan", "nayuki-portable"), ("c06", "tsan", "fftw"), ("c06", "tsan", "spqlios-fma")]
TSAN = {"TSAN_OPTIONS": "halt_on_error=0:exitcode=66:second_deadlock_stack=1"}


def run(tier, seed):
    res = core.Result("C06", tier, seed)
    q = tier == "quick"
    jobs = []
    for k in range(6 if q else 16):
        jobs.append(Job("c06", "optim", "spqlios-fma", {"mode": "rc", "keyseed": 1 + k % 2, "lambda": 128 if k % 3 else 80}, rc_params=core.rc_params(core.splitmix(seed, k), 14 if q else 100), label="rc optim fma %d" % k, weight=2))
    for i, be in enumerate(build.BACKENDS[1:]):
        slow = be.startswith("nayuki")
        jobs.append(Job("c06", "optim", be, {"mode": "rc", "keyseed": 1, "maxT": 32 if slow else 64, "maxops": 3}, rc_params=core.rc_params(core.splitmix(seed, 30 + i), (4 if slow else 6) if q else 60), label="rc optim %s" % be, weight=2))
    for i, be in enumerate(("spqlios-fma", "fftw")):
        jobs.append(Job("c06", "debug", be, {"mode": "rc", "keyseed": 1, "maxT": 16, "maxops": 3}, rc_params=core.rc_params(core.splitmix(seed, 40 + i), 4 if q else 40), label="rc debug %s" % be, weight=2))
    for i, be in enumerate(("nayuki-portable", "fftw", "spqlios-fma")):
        slow = be == "nayuki-portable"
        jobs.append(Job("c06", "tsan", be, {"mode": "rc", "keyseed": 1, "maxT": 4 if slow and q else 8, "maxops": 2, "lambda": 80}, env=TSAN,
                        rc_params=core.rc_params(core.splitmix(seed, 50 + i), (2 if slow else 4) if q else 60), label="rc tsan %s" % be, weight=2, timeout=3000))
    # thread histories in which the harness thread itself never runs an FFT (all keys made by helper threads that have exited), per back-end
    for i, be in enumerate(build.BACKENDS):
        slow = be.startswith("nayuki")
        jobs.append(Job("c06", "optim", be, {"mode": "rc", "keyseed": 3, "offmain": 1, "maxT": 8 if slow else 32, "maxops": 3, "lambda": 80}, rc_params=core.rc_params(core.splitmix(seed, 70 + i), (4 if slow else 8) if q else 60), label="rc optim offmain %s" % be, weight=2))
    # thread churn: bursts of short-lived threads whose first (and only) FFT use overlaps other threads' exits; no long-lived thread holds a processor
    for i, be in enumerate(build.BACKENDS):
        slow = be.startswith("nayuki")
        for r in range((3 if be == "fftw" else 1) if q else 4):
            jobs.append(Job("c06", "optim", be, {"mode": "rc", "keyseed": 3, "offmain": 1, "burstw": 40, "maxT": 8 if slow else 16, "maxops": 3, "lambda": 80}, rc_params=core.rc_params(core.splitmix(seed, 80 + 10 * r + i), (3 if slow else 20) if q else 40), label="rc optim churn %s %d" % (be, r), weight=2))
    jobs.append(Job("c06", "tsan", "fftw", {"mode": "rc", "keyseed": 3, "offmain": 1, "burstw": 40, "maxT": 4, "maxops": 2, "lambda": 80}, env=TSAN, rc_params=core.rc_params(core.splitmix(seed, 120), 3 if q else 30), label="rc tsan churn fftw", weight=2, timeout=3000))
    jobs.sort(key=lambda j: 0 if j.config == "tsan" else 1)
    core.run_jobs(jobs, parallel=10)
    for j in jobs:
        res.absorb(j)
    if res.classes.get("inconclusive_workload_timeout"):
        res.inconclusive.append({"reason": "%d workloads hit the 240 s watchdog" % res.classes["inconclusive_workload_timeout"]})
    for f in res.failures:
        # a byte mismatch cannot happen without shared mutable state: reported even if a later replay happens to pass (DESIGN.md, C06 limits)
        f["no_replay"] = True
        if f.get("crash") and "ThreadSanitizer" in (f.get("why") or ""):
            f["sig"] = "c06/tsan-report"
    res.rule = ("E1 rapidcheck over workloads: thread count in {1,2,3,4,8,16,32,64}, per-thread operation lists drawn from {each gate on shared inputs, tfhe_bootstrap_FFT, tfhe_bootstrap_woKS_FFT, FFT product of "
                "thread-private polynomials, Lagrange add/addmul on private objects, heap churn (allocate, fill, free 16..512 KB before the next FFT call), loops over the rounding functions with other message-space sizes, exact Karatsuba products, sleep/yield, thread exit + respawn, bursts of 6..48 short-lived threads (1..6 rounds, sliding window of 1..16 live threads or all at once) that each make one FFT product and exit}, generated start offsets, optional "
                "key-generation/encryption thread on its own data (LWE keys and fresh encryptions, and every other round a complete small gate-bootstrapping key set made through that thread's own FFT processor), key generated on the main thread or on a thread that has since exited (in the 'offmain' jobs every key is made by helper threads that have exited, so the harness thread never owns an FFT processor and the burst threads are the only owners); all jobs run concurrently so the machine is oversubscribed. Oracle: every output is "
                "byte-identical to a reference computed by a fresh thread of a *freshly forked process image* that has never evaluated anything and runs only that operation (so concurrency, position in the per-thread history, thread identity and process-wide statics latched by earlier calls must not matter); operations include bootstrapping under two further key sets with different dimensions and key-switch layouts, and two crafted inputs whose AND combination rounds to exactly 0; ThreadSanitizer build "
                "of the same workloads must not report (nayuki-portable, fftw, C++ parts of spqlios). Non-trivial = >= 2 threads evaluating on the shared key or an evaluation preceded by other operations on its thread; distinct by case hash.")
    res.assumptions = ["thread interleavings are sampled, not controlled: absence of races is not established", "hand-written assembly is invisible to ThreadSanitizer; it is covered by the byte comparison only"]
    return core.finish(res)
