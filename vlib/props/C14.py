"""C14 — ciphertext linear operations are exactly linear on phases, every dimension (DESIGN.md §3 C14)."""
from .. import core
from ..core import Job

PREBUILD = [("c14", "optim", "spqlios-fma"), ("c14", "debug", "spqlios-fma"), ("c14", "asan-native", "spqlios-fma"), ("c14", "asan", "spqlios-fma")]


def run(tier, seed):
    res = core.Result("C14", tier, seed)
    q = tier == "quick"
    jobs = []
    n = 25000 if q else 600000
    for k in range(8):
        jobs.append(Job("c14", "optim", "spqlios-fma", {"mode": "rc"}, rc_params=core.rc_params(core.splitmix(seed, k), n), label="rc optim %d" % k))
    for k in range(4):
        jobs.append(Job("c14", "debug", "spqlios-fma", {"mode": "rc"}, rc_params=core.rc_params(core.splitmix(seed, 40 + k), n), label="rc debug %d" % k))
    for k, b in enumerate(("asan-native", "asan")):
        jobs.append(Job("c14", b, "spqlios-fma", {"mode": "rc", "fork": 0}, rc_params=core.rc_params(core.splitmix(seed, 80 + k), n // 3), label="rc %s" % b))
    for b in ("optim", "debug"):
        jobs.append(Job("c14", b, "spqlios-fma", {"mode": "lwe_grid", "seed": seed}))
        jobs.append(Job("c14", b, "spqlios-fma", {"mode": "extract_sweep", "seed": seed, "Nmax": 1024}))
    core.run_jobs(jobs)
    for j in jobs:
        res.absorb(j)
    # E4: coverage-guided campaign with the same oracle inside the target (value profile finds a = N, 2N-1, tie phases)
    core.run_fuzz(res, "fz_c14", 12 if tier == "quick" else 600, 2 if tier == "quick" else 8, seed, "C14")
    res.rule = ("E1 rapidcheck: LWE ops {Clear,Copy,Negate,NoiselessTrivial,AddTo,SubTo,AddMulTo,SubMulTo} with n in 1..40 and {500,630,1023,1024,1025,2048}, "
                "TLWE ops (+AddTTo, AddRTTo, MulByXaiMinusOne, NoiselessTrivialT) with N in 2..40 and powers of two up to 1024, k in 1..3, p in {0,+-1,+-2,"
                "INT32_MIN,INT32_MAX,random}, binary and arbitrary integer keys, in-place aliasing for Copy/Negate, extraction at random and boundary j. "
                "E2: every LWE op x every n in 1..40 and the listed large n x both guard sides; every j in [0,N) for every power of two N<=1024 (and some odd N) "
                "x k in 1..3. Oracle: phases computed by the harness with exact integer arithmetic (no FFT) satisfy phase(c1 +- p c2) = phase(c1) +- p phase(c2) mod 2^32, "
                "coefficient-wise reference, variance = v1 + p^2 v2 for |p|<2^15, operand unchanged; LWE masks are harness-owned guard-page buffers and each case "
                "runs in a forked child (SIGSEGV or changed canary = violation). Non-trivial = n not a multiple of 8, p in {0,INT32_MIN}, k>1, extreme contents, "
                "j in {0,N-1}; distinct by case hash (rapidcheck) or by construction (grids).")
    res.assumptions = ["reference arithmetic in the harness (uint32 wrap-around, schoolbook negacyclic product)",
                       "guard pages see out-of-bounds accesses that cross into the adjacent page or touch the in-page slack (canary)"]
    return core.finish(res)
