"""Driver core: jobs, parallel execution, report merging, replay confirmation, known
findings, evidence files.  See DESIGN.md sections 2.3-2.5."""
import json, os, subprocess, sys, time, struct, tempfile, shutil, fnmatch, hashlib, signal
from concurrent.futures import ThreadPoolExecutor
from . import build

VERIF = build.VERIF
EVIDENCE_DIR = os.environ.get("VERIF_EVIDENCE_DIR", os.path.join(VERIF, "evidence"))
REPLAY_DIR = os.path.join(VERIF, "replays")
FINDINGS_OUT = os.environ.get("VERIF_FINDINGS_DIR", os.path.join(VERIF, "findings"))       # replay files of new violations (git-ignored)
KNOWN = os.path.join(VERIF, "known_findings.json")
NCPU = int(os.environ.get("VERIF_JOBS", os.cpu_count() or 8))


def log(*a):
    print("[check]", *a, file=sys.stderr, flush=True)


def splitmix(seed, k):
    z = (seed * 0x9E3779B97F4A7C15 + (k + 1) * 0xBF58476D1CE4E5B9) & 0xFFFFFFFFFFFFFFFF
    z = ((z ^ (z >> 30)) * 0xBF58476D1CE4E5B9) & 0xFFFFFFFFFFFFFFFF
    z = ((z ^ (z >> 27)) * 0x94D049BB133111EB) & 0xFFFFFFFFFFFFFFFF
    return (z ^ (z >> 31)) & 0x7FFFFFFFFFFFFFFF


class Job:
    """One harness process.  harness: name under harness/; config/backend: library build;
    args: dict of --key=value; env: extra environment; weight: cores it occupies."""

    def __init__(self, harness, config, backend, args=None, env=None, label=None, timeout=3600,
                 weight=1, rc_params=None, exe=None, accept_exit=(0, 1), extra_flags=None, libs=None):
        self.harness, self.config, self.backend = harness, config, backend
        self.args = dict(args or {})
        self.env = dict(env or {})
        self.label = label or "%s/%s/%s" % (harness, config, backend)
        self.timeout, self.weight = timeout, weight
        self.rc_params = rc_params
        self.exe = exe
        self.accept_exit = accept_exit
        self.extra_flags, self.libs = extra_flags, libs
        # results
        self.report = None
        self.rc = None
        self.crash = None
        self.out_tail = ""
        self.wall = 0.0
        self.timed_out = False

    def cfg(self):
        return {"backend": self.backend, "build": self.config}


def _run_job(job, workdir, idx):
    out = os.path.join(workdir, "job%04d.json" % idx)
    job.out_path = out
    exe = job.exe or build.compile_harness(job.harness, job.config, job.backend,
                                           extra_flags=job.extra_flags, libs=job.libs)
    job.exe = exe
    cmd = [exe, "--out=" + out] + ["--%s=%s" % (k, v) for k, v in job.args.items()]
    env = dict(os.environ)
    env.setdefault("ASAN_OPTIONS", "abort_on_error=1:detect_leaks=0:handle_abort=0:allocator_may_return_null=1")
    env.setdefault("UBSAN_OPTIONS", "halt_on_error=1:abort_on_error=1:print_stacktrace=1")
    env.setdefault("TSAN_OPTIONS", "halt_on_error=0:exitcode=66")
    # glibc fills every malloc'ed block with 0x5A and every freed block with 0xA5: a read of uninitialised or released heap memory
    # then yields a conspicuous value instead of (usually) zero, in the non-sanitizer builds too
    env.setdefault("MALLOC_PERTURB_", "165")
    if job.rc_params:
        env["RC_PARAMS"] = job.rc_params
    env.update(job.env)
    t0 = time.time()
    try:
        p = subprocess.run(cmd, stdout=subprocess.PIPE, stderr=subprocess.STDOUT, env=env,
                           timeout=job.timeout, cwd=workdir)
        job.rc = p.returncode
        txt = p.stdout.decode("utf-8", "replace")
    except subprocess.TimeoutExpired as e:
        job.rc = None
        job.timed_out = True
        txt = (e.stdout or b"").decode("utf-8", "replace")
    job.wall = time.time() - t0
    job.out_tail = txt[-6000:]
    job.cmd = cmd
    if os.path.exists(out):
        try:
            job.report = json.load(open(out))
        except Exception as e:  # truncated report
            job.report = None
    if os.path.exists(out + ".crash"):
        try:
            job.crash = json.load(open(out + ".crash"))
        except Exception:
            job.crash = {"signal": -1, "case": None}
    return job


def run_jobs(jobs, workdir=None, parallel=None):
    """Run jobs in parallel (thread pool, each job = one process)."""
    own = workdir is None
    os.makedirs(build.BUILD_ROOT, exist_ok=True)
    if workdir is None:
        workdir = tempfile.mkdtemp(prefix="verif-run-", dir=build.BUILD_ROOT)
        _WORKDIRS.append(workdir)
    # compile all distinct harness executables first (serially per name; fast when cached)
    seen = {}
    for j in jobs:
        key = (j.harness, j.config, j.backend)
        if j.exe is None:
            if key not in seen:
                seen[key] = build.compile_harness(j.harness, j.config, j.backend,
                                                  extra_flags=j.extra_flags, libs=j.libs)
            j.exe = seen[key]
    par = parallel or NCPU
    with ThreadPoolExecutor(max_workers=par) as ex:
        futs = [ex.submit(_run_job, j, workdir, k) for k, j in enumerate(jobs)]
        for f in futs:
            f.result()
    return workdir


_WORKDIRS = []


def _cleanup():
    for w in _WORKDIRS:
        shutil.rmtree(w, ignore_errors=True)
    del _WORKDIRS[:]


import atexit
atexit.register(_cleanup)


def read_hashes(path):
    try:
        data = open(path, "rb").read()
    except OSError:
        return set()
    n = len(data) // 8
    return set(struct.unpack("<%dQ" % n, data[:8 * n]))


# ---------------------------------------------------------------- known findings
def load_known():
    try:
        return json.load(open(KNOWN))["findings"]
    except Exception:
        return []


def match_known(prop, sig):
    """Return the *open* finding whose signature pattern matches sig (or None)."""
    for f in load_known():
        if f.get("property") == prop and f.get("status") == "open" and fnmatch.fnmatch(sig or "", f.get("signature", "")):
            return f
    return None


# ---------------------------------------------------------------- result assembly
class Result:
    def __init__(self, prop, tier, seed, level="exploration"):
        self.prop, self.tier, self.seed, self.level = prop, tier, seed, level
        self.t0 = time.time()
        self.evaluations = 0
        self.nontrivial_hashes = set()
        self.exhaustive_nontrivial = 0
        self.nontrivial_total = 0
        self.classes = {}
        self.per_config = {}
        self.samples = []
        self.failures = []      # dicts: check, config, case, why, sig, confirmed
        self.known_hits = []
        self.inconclusive = []
        self.rule = ""
        self.exhaustive = False
        self.extra = {}
        self.assumptions = []
        self.stats = {}
        self.harness_errors = []
        self.sample_pool = {}
        self.job_walls = []

    def absorb(self, job, count_hashes=True):
        """Fold one finished job into the result; classify crash / failure."""
        r = job.report
        self.job_walls.append((round(job.wall, 1), job.label))
        if job.timed_out:
            self.inconclusive.append({"job": job.label, "reason": "time budget exhausted (%ds)" % job.timeout})
        if r:
            self.evaluations += r.get("evaluations", 0)
            self.exhaustive_nontrivial += r.get("exhaustive_nontrivial", 0)
            self.nontrivial_total += r.get("nontrivial_total", 0)
            for k, v in r.get("classes", {}).items():
                self.classes[k] = self.classes.get(k, 0) + v
            pc = self.per_config.setdefault("%s/%s" % (job.config, job.backend), {"evaluations": 0, "jobs": 0})
            pc["evaluations"] += r.get("evaluations", 0)
            pc["jobs"] += 1
            pool = self.sample_pool.setdefault("%s/%s" % (job.harness, job.args.get("mode", "")), [])
            if len(pool) < 6:
                ss = r.get("samples", [])
                for s in (ss[:1] + ss[-2:]):
                    pool.append({"check": job.harness, "config": job.cfg(), "case": s})
            if count_hashes:
                self.nontrivial_hashes |= read_hashes(job.out_path + ".hashes")
            for f in r.get("failures", []):
                self.failures.append({"check": job.harness, "config": job.cfg(), "case": f.get("case"),
                                      "why": f.get("why"), "sig": f.get("sig") or "", "job": job.label,
                                      "args": job.args, "env": job.env, "rc_params": job.rc_params})
        crashed = (job.rc is not None and job.rc not in job.accept_exit) or (job.rc is None and not job.timed_out)
        if crashed:
            case = job.crash.get("case") if job.crash else None
            sig = "crash/" + (signal.Signals(-job.rc).name if job.rc and job.rc < 0 else "exit%s" % job.rc)
            self.failures.append({"check": job.harness, "config": job.cfg(), "case": case,
                                  "why": "harness process died: rc=%s; output tail:\n%s" % (job.rc, job.out_tail[-3000:]),
                                  "sig": sig, "job": job.label, "args": job.args, "env": job.env, "crash": True})
        elif r is None and not job.timed_out:
            self.harness_errors.append("%s: no report (rc=%s): %s" % (job.label, job.rc, job.out_tail[-800:]))

    def distinct_nontrivial(self):
        return len(self.nontrivial_hashes) + self.exhaustive_nontrivial


def write_replay(prop, failure):
    os.makedirs(FINDINGS_OUT, exist_ok=True)
    blob = {"property": prop, "check": failure["check"], "config": failure["config"],
            "case": failure.get("case"), "why": failure.get("why"), "sig": failure.get("sig"),
            "args": failure.get("args", {}), "env": failure.get("env", {}), "rc_params": failure.get("rc_params")}
    h = hashlib.sha256(json.dumps(blob, sort_keys=True).encode()).hexdigest()[:12]
    path = os.path.join(FINDINGS_OUT, "%s-%s-%s.json" % (prop, failure["check"], h))
    with open(path, "w") as fh:
        json.dump(blob, fh, indent=1)
    return path


def _job_replay(path, times=1, timeout=3600):
    """Re-run the whole seeded job recorded in a replay file; returns (n_fail, n_runs, tail)."""
    blob = json.load(open(path))
    cfg = blob["config"]
    exe = build.compile_harness(blob["check"], cfg["build"], cfg["backend"])
    nfail, tail = 0, ""
    for _ in range(times):
        os.makedirs(build.BUILD_ROOT, exist_ok=True)
        with tempfile.TemporaryDirectory(prefix="verif-jobreplay-", dir=build.BUILD_ROOT) as td:
            out = os.path.join(td, "r.json")
            cmd = [exe, "--out=" + out] + ["--%s=%s" % (k, v) for k, v in blob.get("args", {}).items()]
            env = dict(os.environ, RC_PARAMS=blob.get("rc_params") or "", MALLOC_PERTURB_="165")
            env.setdefault("ASAN_OPTIONS", "abort_on_error=1:detect_leaks=0:handle_abort=0")
            env.update(blob.get("env", {}))
            try:
                p = subprocess.run(cmd, stdout=subprocess.PIPE, stderr=subprocess.STDOUT, env=env, timeout=timeout, cwd=td)
                tail = p.stdout.decode("utf-8", "replace")[-2000:]
                failed = p.returncode != 0
            except subprocess.TimeoutExpired:
                failed, tail = False, "timeout"
            nfail += 1 if failed else 0
    return nfail, times, tail


def replay_file(path, times=3, timeout=1800):
    """Re-run a saved case (bypassing rapidcheck); returns (n_fail, n_runs, last_output)."""
    path = os.path.abspath(path)
    blob = json.load(open(path))
    if blob.get("replay_whole_job"):
        return _job_replay(path, times)
    if blob.get("fuzz_artifact"):   # a saved libFuzzer input: run the target on it (the saved input is the reproducible unit)
        exe = build.compile_fuzz_target(blob["fuzz_target"])
        nfail, tail = 0, ""
        for _ in range(times):
            p = subprocess.run([exe, blob["fuzz_artifact"]], stdout=subprocess.PIPE, stderr=subprocess.STDOUT, env=dict(os.environ, ASAN_OPTIONS="abort_on_error=1:detect_leaks=0"))
            tail = p.stdout.decode("utf-8", "replace")[-2000:]
            nfail += 1 if p.returncode != 0 else 0
        return nfail, times, tail
    cfg = blob["config"]
    exe = build.compile_harness(blob["check"], cfg["build"], cfg["backend"])
    nfail = 0
    tail = ""
    for k in range(times):
        os.makedirs(build.BUILD_ROOT, exist_ok=True)
        with tempfile.TemporaryDirectory(prefix="verif-replay-", dir=build.BUILD_ROOT) as td:
            out = os.path.join(td, "r.json")
            args = ["--%s=%s" % (k2, v) for k2, v in blob.get("args", {}).items() if k2 not in ("cases", "mode")]
            cmd = [exe, "--out=" + out, "--mode=replay", "--replay=" + path] + args
            env = dict(os.environ)
            env.setdefault("ASAN_OPTIONS", "abort_on_error=1:detect_leaks=0:handle_abort=0")
            env.setdefault("UBSAN_OPTIONS", "halt_on_error=1:abort_on_error=1")
            env.update(blob.get("env", {}))
            try:
                p = subprocess.run(cmd, stdout=subprocess.PIPE, stderr=subprocess.STDOUT, env=env, timeout=timeout, cwd=td)
                rc = p.returncode
                tail = p.stdout.decode("utf-8", "replace")[-3000:]
            except subprocess.TimeoutExpired:
                rc = 0
                tail = "timeout"
            failed = rc != 0
            if rc == 0 and os.path.exists(out):
                try:
                    rep = json.load(open(out))
                    failed = rep.get("failure_count", 0) > 0
                except Exception:
                    pass
            nfail += 1 if failed else 0
    return nfail, times, tail


def finish(res, confirm=True, custom_replay=None):
    """Confirm failures by replay, apply known findings, write evidence, print verdict."""
    os.makedirs(EVIDENCE_DIR, exist_ok=True)
    violations = []
    flaky = []
    seen_sig = set()
    for f in res.failures:
        key = (f["check"], f["sig"], json.dumps(f["config"], sort_keys=True))
        if key in seen_sig and len(seen_sig) > 0 and not f.get("force"):
            continue
        seen_sig.add(key)
        known = match_known(res.prop, f["sig"])
        if known:
            res.known_hits.append((known, f))
            continue
        path = write_replay(res.prop, f)
        if f.get("fuzz_artifact"):
            blob = json.load(open(path)); blob["fuzz_artifact"] = f["fuzz_artifact"]; blob["fuzz_target"] = f["check"]
            json.dump(blob, open(path, "w"), indent=1)
        f["replay"] = path
        if confirm and f.get("case") is not None and not f.get("no_replay"):
            nf, nr, tail = (custom_replay or replay_file)(path)
            f["replayed"] = "%d/%d" % (nf, nr)
            if nf == nr:
                violations.append(f)
            elif nf == 0 and not f.get("crash") and f.get("rc_params") and _job_replay(path, 1)[0] == 1:
                # the single case passes in a fresh process but the seeded job that produced it fails again: the failure depends on what ran
                # earlier in the process (history). The job (harness + arguments + RC_PARAMS seed) is the reproducible unit and becomes the replay.
                blob = json.load(open(path)); blob["replay_whole_job"] = True
                json.dump(blob, open(path, "w"), indent=1)
                f["why"] = "[depends on the history of earlier cases in the same process; replay re-runs the seeded job] " + (f.get("why") or "")
                violations.append(f)
            elif nf == 0 and not f.get("crash"):
                flaky.append(f)
            else:
                violations.append(f)   # partially reproducible memory/abort failures still count
        else:
            violations.append(f)
    pools = [list(p) for p in res.sample_pool.values()]
    while len(res.samples) < 14 and any(pools):
        for p in pools:
            if p and len(res.samples) < 14:
                res.samples.append(p.pop(0))
    cov = {
        "evaluations": int(res.evaluations),
        "distinct_nontrivial": int(res.distinct_nontrivial()),
        "rule": res.rule,
        "samples": res.samples[:12] if res.samples else [{"note": "no sample recorded"}],
        "exhaustive": bool(res.exhaustive),
        "nontrivial_evaluations_not_deduplicated": int(res.nontrivial_total),
        "classes": res.classes,
        "per_config": res.per_config,
        "inconclusive": res.inconclusive,
        "known_findings_hit": [k["signature"] for k, _ in res.known_hits],
        "flaky_unconfirmed": [{"check": f["check"], "why": (f.get("why") or "")[:500]} for f in flaky],
        "violations": [{"check": f["check"], "config": f["config"], "sig": f["sig"], "why": (f.get("why") or "")[:1500],
                        "replay": f.get("replay"), "replayed": f.get("replayed")} for f in violations[:20]],
    }
    cov["slowest_jobs"] = sorted(res.job_walls, reverse=True)[:4]
    cov.update(res.extra)
    if res.stats:
        cov["statistics"] = res.stats
    ev = {"property_id": res.prop, "tier": res.tier, "seed": int(res.seed), "level": res.level,
          "coverage": cov, "assumptions": res.assumptions, "wall_s": round(time.time() - res.t0, 2),
          "violations": len(violations)}
    with open(os.path.join(EVIDENCE_DIR, res.prop + ".json"), "w") as fh:
        json.dump(ev, fh, indent=1, default=str)
    printed = set()
    for known, f in res.known_hits:
        if known.get("signature") in printed:
            continue
        printed.add(known.get("signature"))
        print("KNOWN-FINDING: property=%s %s" % (res.prop, known.get("what", known.get("signature"))))
    for e in res.harness_errors:
        log("harness error:", e)
    for f in violations:
        log("violation detail [%s %s] %s" % (f["check"], f["config"], (f.get("why") or "")[:1200]))
        print("VIOLATION property=%s replay=%s" % (res.prop, f.get("replay")))
    sys.stdout.flush()
    if violations:
        return 1
    if flaky or res.harness_errors:
        return 2
    log("%s %s: ok — %d evaluations, %d distinct non-trivial, %.1fs" %
        (res.prop, res.tier, res.evaluations, res.distinct_nontrivial(), time.time() - res.t0))
    return 0


def rc_params(seed, max_success, max_size=100, extra=""):
    return ("seed=%d max_success=%d max_size=%d max_discard_ratio=50 %s" % (seed, max_success, max_size, extra)).strip()


def run_fuzz(res, target, seconds, workers, seed, prop):
    """E4: libFuzzer campaign(s) on harness/fuzz/<target>.cpp.  Only crash-* artefacts count (semantic oracle traps inside the
    target; ASan reports abort); a budget that runs out is simply the end of the exploration."""
    import glob, re
    exe = build.compile_fuzz_target(target)
    base = tempfile.mkdtemp(prefix="fuzz-%s-" % target, dir=build.BUILD_ROOT)
    _WORKDIRS.append(base)
    seedcorp = os.path.join(VERIF, "harness", "fuzz", "corpus", target)
    procs = []
    for w in range(workers):
        cdir = os.path.join(base, "corpus%d" % w)
        adir = os.path.join(base, "art%d" % w)
        os.makedirs(cdir); os.makedirs(adir)
        cmd = [exe, "-max_total_time=%d" % seconds, "-seed=%d" % (splitmix(seed, 900 + w) % (2 ** 31 - 1) + 1), "-use_value_profile=1", "-print_final_stats=1",
               "-artifact_prefix=" + adir + "/", "-max_len=4096", cdir] + ([seedcorp] if os.path.isdir(seedcorp) and w % 2 == 0 else [])
        env = dict(os.environ, ASAN_OPTIONS="abort_on_error=1:detect_leaks=0")
        procs.append((w, adir, subprocess.Popen(cmd, stdout=subprocess.DEVNULL, stderr=subprocess.PIPE, env=env, cwd=base)))
    execs = 0
    for w, adir, p in procs:
        try:
            _, err = p.communicate(timeout=seconds + 600)
        except subprocess.TimeoutExpired:
            p.kill(); _, err = p.communicate()
            res.inconclusive.append({"job": "fuzz %s #%d" % (target, w), "reason": "did not stop within budget"})
        err = err.decode("utf-8", "replace")
        m = re.search(r"stat::number_of_executed_units:\s*(\d+)", err)
        n = int(m.group(1)) if m else 0
        execs += n
        for art in sorted(glob.glob(os.path.join(adir, "crash-*"))):
            os.makedirs(FINDINGS_OUT, exist_ok=True)
            dst = os.path.join(FINDINGS_OUT, "%s-%s-%s" % (prop, target, os.path.basename(art)))
            shutil.copy(art, dst)
            vio = [l for l in err.splitlines() if "VIOLATION" in l or "ERROR: AddressSanitizer" in l or l.startswith("case:")]
            res.failures.append({"check": target, "config": {"build": "fuzz", "backend": "nayuki-portable"}, "case": None, "no_replay": True, "fuzz_artifact": dst,
                                 "why": "libFuzzer artefact %s: %s" % (os.path.basename(art), " | ".join(vio)[:1200]), "sig": "fuzz/%s" % target})
    res.evaluations += execs
    res.per_config["fuzz/%s" % target] = {"evaluations": execs, "jobs": workers, "seconds_each": seconds}
    res.classes["fuzz_%s_execs" % target] = execs
    return execs
