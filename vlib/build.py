"""Build matrix: builds /repo's working tree into /verif/.build/<config>/ using the
project's own CMakeLists, keyed by a hash of every file under /repo/src (minus
googletest) plus the flag string.  See DESIGN.md section 2.1."""
import hashlib, os, subprocess, fcntl, shutil, sys, time

REPO = os.environ.get("VERIF_REPO", "/repo")
VERIF = os.path.dirname(os.path.dirname(os.path.abspath(__file__)))
BUILD_ROOT = os.environ.get("VERIF_BUILD_ROOT", os.path.join(VERIF, ".build"))
GUARD = "TFHE_VERIF"

BACKENDS = ["spqlios-fma", "spqlios-avx", "nayuki-portable", "nayuki-avx", "fftw"]

_SAN = "-fsanitize=address,bounds,null,alignment,object-size,vla-bound -fno-sanitize-recover=all -fno-omit-frame-pointer"
# name -> dict(build_type, cc, cxx, cxxflags, cflags, ldflags)
CONFIGS = {
    # the project's own two build types, verbatim (flags come from src/CMakeLists.txt)
    "optim": dict(bt="optim"),
    "debug": dict(bt="debug"),
    # custom build types: the project sets no flags for them, so ours apply
    "asan": dict(bt="vasan",
                 cxx="-std=gnu++11 -O1 -g %s -D%s" % (_SAN, GUARD),
                 c="-O1 -g %s -D%s" % (_SAN, GUARD),
                 ld="-fsanitize=address,undefined"),
    "asan-native": dict(bt="vasann",
                 cxx="-std=gnu++11 -O1 -g -march=native %s -D%s" % (_SAN, GUARD),
                 c="-O1 -g -march=native %s -D%s" % (_SAN, GUARD),
                 ld="-fsanitize=address,undefined"),
    "tsan": dict(bt="vtsan",
                 cxx="-std=gnu++11 -O1 -g -fsanitize=thread -DNDEBUG -D%s" % GUARD,
                 c="-O1 -g -fsanitize=thread -DNDEBUG -D%s" % GUARD,
                 ld="-fsanitize=thread"),
    "vg": dict(bt="vvg",
               cxx="-std=gnu++11 -O2 -g -march=haswell -DNDEBUG -D%s" % GUARD,
               c="-O2 -g -march=haswell -DNDEBUG -D%s" % GUARD, ld=""),
    "fuzz": dict(bt="vfuzz", cc="clang", cxxc="clang++",
                 cxx="-std=gnu++11 -O1 -g -fsanitize=fuzzer-no-link,address -D%s" % GUARD,
                 c="-O1 -g -fsanitize=fuzzer-no-link,address -D%s" % GUARD,
                 ld="-fsanitize=address"),
}


def log(*a):
    print("[build]", *a, file=sys.stderr, flush=True)


def tree_hash(extra=""):
    """SHA-256 over path+content of every file under REPO/src except googletest."""
    h = hashlib.sha256()
    root = os.path.join(REPO, "src")
    for d, dirs, files in os.walk(root):
        dirs[:] = sorted(x for x in dirs if x != "googletest" and x != ".git")
        if os.path.relpath(d, root).startswith("test"):
            continue
        for f in sorted(files):
            p = os.path.join(d, f)
            h.update(os.path.relpath(p, root).encode() + b"\0")
            try:
                with open(p, "rb") as fh:
                    h.update(fh.read())
            except OSError:
                pass
            h.update(b"\0")
    h.update(extra.encode())
    return h.hexdigest()


_cache = {}


def ensure(config):
    """Build (if needed) and return the directory holding libtfhe-<be>.so for config."""
    if config in _cache:
        return _cache[config]
    c = CONFIGS[config]
    flagstr = repr(sorted(c.items()))
    want = tree_hash(flagstr)
    bdir = os.path.join(BUILD_ROOT, config)
    os.makedirs(BUILD_ROOT, exist_ok=True)
    lockf = open(os.path.join(BUILD_ROOT, config + ".lock"), "w")
    fcntl.flock(lockf, fcntl.LOCK_EX)
    try:
        stamp = os.path.join(bdir, "VERIF_STAMP")
        have = open(stamp).read().strip() if os.path.exists(stamp) else ""
        if have != want:
            t0 = time.time()
            shutil.rmtree(bdir, ignore_errors=True)
            os.makedirs(bdir)
            cmd = ["cmake", "-S", os.path.join(REPO, "src"), "-B", bdir, "-G", "Ninja",
                   "-DCMAKE_BUILD_TYPE=" + c["bt"], "-DENABLE_TESTS=off", "-DENABLE_FFTW=on",
                   "-DENABLE_NAYUKI_PORTABLE=on", "-DENABLE_NAYUKI_AVX=on",
                   "-DENABLE_SPQLIOS_AVX=on", "-DENABLE_SPQLIOS_FMA=on"]
            if "cxx" in c:
                BT = c["bt"].upper()
                cmd += ["-DCMAKE_CXX_FLAGS_%s=%s" % (BT, c["cxx"]),
                        "-DCMAKE_C_FLAGS_%s=%s" % (BT, c["c"]),
                        "-DCMAKE_ASM_FLAGS_%s=" % BT,
                        "-DCMAKE_SHARED_LINKER_FLAGS=%s" % c.get("ld", "")]
            if "cxxc" in c:
                cmd += ["-DCMAKE_CXX_COMPILER=" + c["cxxc"], "-DCMAKE_C_COMPILER=" + c["cc"],
                        "-DCMAKE_ASM_COMPILER=" + c["cc"]]
            r = subprocess.run(cmd, stdout=subprocess.PIPE, stderr=subprocess.STDOUT, text=True)
            if r.returncode != 0:
                raise RuntimeError("cmake configure failed for %s:\n%s" % (config, r.stdout[-4000:]))
            r = subprocess.run(["ninja", "-C", bdir, "-j", str(os.cpu_count() or 8)],
                               stdout=subprocess.PIPE, stderr=subprocess.STDOUT, text=True)
            if r.returncode != 0:
                raise RuntimeError("build failed for %s:\n%s" % (config, r.stdout[-6000:]))
            with open(stamp, "w") as fh:
                fh.write(want)
            log("built %s in %.1fs" % (config, time.time() - t0))
    finally:
        fcntl.flock(lockf, fcntl.LOCK_UN)
        lockf.close()
    libdir = os.path.join(bdir, "libtfhe")
    _cache[config] = libdir
    return libdir


def lib_path(config, backend):
    return os.path.join(ensure(config), "libtfhe-%s.so" % backend)


HARNESS_DIR = os.path.join(VERIF, "harness")


def _file_hash(paths, extra=""):
    h = hashlib.sha256()
    for p in paths:
        with open(p, "rb") as fh:
            h.update(fh.read())
    h.update(extra.encode())
    return h.hexdigest()[:20]


def _headers():
    inc = os.path.join(REPO, "src", "include")
    return sorted(os.path.join(inc, f) for f in os.listdir(inc))


def compile_harness(name, config, backend, srcs=None, extra_flags=None, cxx=None, libs=None,
                    harness_flags=None):
    """Compile harness/<name>.cpp against the given library build; returns path of executable.
    Object is cached by hash(harness sources + common headers + public headers + flags)."""
    libdir = ensure(config)
    srcs = srcs or [os.path.join(HARNESS_DIR, name + ".cpp")]
    common = sorted(os.path.join(HARNESS_DIR, f) for f in os.listdir(HARNESS_DIR)
                    if f.endswith(".hpp") or f.endswith(".h"))
    c = CONFIGS[config]
    cxx = cxx or c.get("cxxc", "g++")
    flags = ["-std=gnu++17", "-g", "-O2" if config not in ("asan", "asan-native", "tsan", "fuzz") else "-O1",
             "-I", os.path.join(REPO, "src", "include"), "-I", HARNESS_DIR, "-pthread"]
    if config.startswith("asan"):
        flags += ["-fsanitize=address,undefined", "-fno-sanitize=signed-integer-overflow,shift",
                  "-fno-omit-frame-pointer"]
    if config == "tsan":
        flags += ["-fsanitize=thread"]
    if config == "fuzz":
        flags += ["-fsanitize=fuzzer,address"]
    flags += (extra_flags or []) + (harness_flags or [])
    key = _file_hash(srcs + common + _headers(), repr(flags) + cxx)
    odir = os.path.join(BUILD_ROOT, "harness", config)
    os.makedirs(odir, exist_ok=True)
    obj = os.path.join(odir, "%s-%s.o" % (name, key))
    exe = os.path.join(odir, "%s-%s-%s" % (name, backend, key))
    lockf = open(os.path.join(odir, name + ".lock"), "w")
    fcntl.flock(lockf, fcntl.LOCK_EX)
    try:
        if not os.path.exists(obj):
            for old in os.listdir(odir):
                if old.startswith(name + "-") and not old.endswith(".lock"):
                    try:
                        os.unlink(os.path.join(odir, old))
                    except OSError:
                        pass
            if len(srcs) == 1:
                r = subprocess.run([cxx] + flags + ["-c", srcs[0], "-o", obj + ".tmp.o"],
                                   stdout=subprocess.PIPE, stderr=subprocess.STDOUT, text=True)
                if r.returncode != 0:
                    raise RuntimeError("harness compile failed (%s,%s):\n%s" % (name, config, r.stdout[-6000:]))
                os.rename(obj + ".tmp.o", obj)
            else:
                raise RuntimeError("multi-source harness not supported")
        # always relink: the library may have changed (cheap)
        lflags = [f for f in flags if f.startswith("-fsanitize") or f == "-pthread"]
        r = subprocess.run([cxx, obj, "-o", exe + ".tmp"] + lflags +
                           ["-L", libdir, "-ltfhe-" + backend, "-Wl,-rpath," + libdir, "-lrapidcheck"] + (libs or []),
                           stdout=subprocess.PIPE, stderr=subprocess.STDOUT, text=True)
        if r.returncode != 0:
            raise RuntimeError("harness link failed (%s,%s,%s):\n%s" % (name, config, backend, r.stdout[-6000:]))
        os.rename(exe + ".tmp", exe)
    finally:
        fcntl.flock(lockf, fcntl.LOCK_UN)
        lockf.close()
    return exe


if __name__ == "__main__":
    for cfg in sys.argv[1:] or ["optim", "debug"]:
        print(cfg, ensure(cfg))


def compile_fuzz_target(name, backend="nayuki-portable"):
    """libFuzzer target harness/fuzz/<name>.cpp against the clang 'fuzz' build (ASan, no AVX2 inline asm)."""
    libdir = ensure("fuzz")
    src = os.path.join(HARNESS_DIR, "fuzz", name + ".cpp")
    deps = [src] + sorted(os.path.join(HARNESS_DIR, f) for f in os.listdir(HARNESS_DIR) if f.endswith((".hpp", ".cpp")))
    key = _file_hash(deps + _headers(), "fuzz")
    odir = os.path.join(BUILD_ROOT, "harness", "fuzz")
    os.makedirs(odir, exist_ok=True)
    exe = os.path.join(odir, "%s-%s" % (name, key))
    lockf = open(os.path.join(odir, name + ".lock"), "w")
    fcntl.flock(lockf, fcntl.LOCK_EX)
    try:
        if not os.path.exists(exe):
            for old in os.listdir(odir):
                if old.startswith(name + "-"):
                    os.unlink(os.path.join(odir, old))
            cmd = ["clang++", "-std=gnu++17", "-g", "-O1", "-fsanitize=fuzzer,address", "-I", os.path.join(REPO, "src", "include"), "-I", HARNESS_DIR,
                   src, "-o", exe + ".tmp", "-L", libdir, "-ltfhe-" + backend, "-Wl,-rpath," + libdir, "-lrapidcheck", "-pthread"]
            r = subprocess.run(cmd, stdout=subprocess.PIPE, stderr=subprocess.STDOUT, text=True)
            if r.returncode != 0:
                raise RuntimeError("fuzz target compile failed (%s):\n%s" % (name, r.stdout[-4000:]))
            os.rename(exe + ".tmp", exe)
        else:
            # relink is unnecessary: the library is found through rpath at run time
            pass
    finally:
        fcntl.flock(lockf, fcntl.LOCK_UN)
        lockf.close()
    return exe
