// C06 — homomorphic evaluation is deterministic, thread-safe and history-independent.
// A workload = per-thread operation lists run concurrently on one shared cloud key; every output is
// compared byte for byte with a reference computed by a fresh thread that ran only that operation.
#include "hmain.hpp"
#include "bklib.hpp"
#include <lagrangehalfc_arithmetic.h>
#include <sys/wait.h>
#include <malloc.h>
#include <polynomials_arithmetic.h>
#include <thread>
#include <atomic>
#include <chrono>
using namespace vf;

static const int N = 1024, NIN = 8;
enum { OP_BOOT = 11, OP_FFTPROD = 12, OP_LAGR = 13, OP_CHURN = 14, OP_YIELD = 15, OP_RESPAWN = 16, OP_WOKS = 17, OP_BOOTK = 18, OP_MODSWITCH = 19, OP_KARATSUBA = 20, OP_BURST = 21 };
static bool g_sequential = false; // set in reference processes: bursts run one thread at a time
static const char *opname(int k) { return k <= 10 ? GATES[k].name : k == OP_BOOT ? "bootstrap_FFT" : k == OP_FFTPROD ? "fft-product" : k == OP_LAGR ? "lagrange-ops" : k == OP_CHURN ? "heap-churn" : k == OP_YIELD ? "yield" : k == OP_RESPAWN ? "respawn" : k == OP_BOOTK ? "bootstrap_FFT-under-another-key-set" : k == OP_MODSWITCH ? "modulus-switch-loop-other-M" : k == OP_KARATSUBA ? "karatsuba-product" : k == OP_BURST ? "burst-of-short-lived-FFT-threads" : "bootstrap_woKS_FFT"; }

struct Shared { KeySet *K; LweSample *in; BKey *extra[2]; };

// executes one operation; returns a hash of its output bytes (0 for ops without output)
static uint64_t do_op(const Shared &S, const int64_t *op) {
    const int kind = (int)op[0];
    const int n = S.K->n;
    if (kind <= 10) {
        LweSample *r = new_gate_bootstrapping_ciphertext(S.K->params);
        gate_apply(kind, r, S.in + op[1] % NIN, S.in + op[2] % NIN, S.in + op[3] % NIN, 0, S.K->ck);
        uint64_t h = hash_words(r->a, (size_t)n * 4, 3) ^ (uint64_t)(uint32_t)r->b;
        delete_gate_bootstrapping_ciphertext(r);
        return h;
    }
    if (kind == OP_BOOT || kind == OP_WOKS) {
        const LweBootstrappingKeyFFT *bk = S.K->ck->bkFFT;
        LweSample *r = new_LweSample(kind == OP_BOOT ? S.K->params->in_out_params : &bk->accum_params->extracted_lweparams);
        int nn = kind == OP_BOOT ? n : bk->accum_params->N * bk->accum_params->k;
        if (kind == OP_BOOT) tfhe_bootstrap_FFT(r, bk, (int32_t)(op[2] * 2654435761u), S.in + op[1] % NIN);
        else tfhe_bootstrap_woKS_FFT(r, bk, (int32_t)(op[2] * 2654435761u), S.in + op[1] % NIN);
        uint64_t h = hash_words(r->a, (size_t)nn * 4, 5) ^ (uint64_t)(uint32_t)r->b;
        delete_LweSample(r);
        return h;
    }
    if (kind == OP_BOOTK) { // bootstrapping (with key switch) under one of two other key sets with different dimensions and key-switch layouts
        BKey *B = S.extra[op[1] % 2];
        LweSample *x = new_LweSample(B->Pin), *r = new_LweSample(B->Pin);
        SplitMix rr((uint64_t)op[2]);
        for (int i = 0; i < B->cfg.n; i++) x->a[i] = rr.i32();
        x->b = rr.i32(); x->current_variance = 0;
        tfhe_bootstrap_FFT(r, B->bkFFT, (int32_t)(op[3] * 2654435761u + 12345), x);
        uint64_t h = hash_words(r->a, (size_t)B->cfg.n * 4, 13) ^ (uint64_t)(uint32_t)r->b;
        delete_LweSample(x); delete_LweSample(r);
        return h;
    }
    if (kind == OP_MODSWITCH) { // rounding functions with other message-space sizes on private data, while other threads bootstrap with M = 2N
        static const int32_t MS[] = {8, 3, 1000, 4096, 2, 32768};
        int32_t M = MS[op[1] % 6];
        SplitMix rr((uint64_t)op[2]);
        uint64_t h = 17;
        for (int q = 0; q < 20000; q++) { int32_t ph = rr.i32(); int32_t r = modSwitchFromTorus32(ph, M); int32_t ap = approxPhase(ph, M); h = (h ^ (uint32_t)r) * 0x100000001b3ull; h = (h ^ (uint32_t)ap) * 0x100000001b3ull; }
        return h;
    }
    if (kind == OP_KARATSUBA) { // exact (non-FFT) product of thread-private polynomials
        IntPolynomial *a = new_IntPolynomial(N); TorusPolynomial *b = new_TorusPolynomial(N), *r = new_TorusPolynomial(N);
        fill_int(a->coefs, N, 100000, 0, (uint64_t)op[1]); fill_torus((uint32_t *)b->coefsT, N, 0, (uint64_t)op[1] + 3); fill_torus((uint32_t *)r->coefsT, N, 0, 5);
        uint64_t h = 19;
        for (int q = 0; q < 24; q++) { // a few dozen products so that concurrent threads overlap inside the routine
            a->coefs[q] += q;
            if ((op[2] + q) & 1) torusPolynomialMultKaratsuba(r, a, b); else torusPolynomialAddMulRKaratsuba(r, a, b);
            h = hash_words(r->coefsT, N * 4, h);
        }
        delete_IntPolynomial(a); delete_TorusPolynomial(b); delete_TorusPolynomial(r);
        return h;
    }
    if (kind == OP_BURST) { // short-lived threads that each make one FFT product and exit; creations overlap exits (sliding window of 1..16 live threads, or all at once)
        static const int WS[] = {1, 2, 4, 8, 16, 64, 64, 3};
        const int m = 6 + (int)(op[1] % 43), W = g_sequential ? 1 : WS[op[3] % 8];
        const int R = 1 + (int)(op[2] % 6); // rounds
        std::vector<uint64_t> hs((size_t)m * R, 0);
        for (int r = 0; r < R; r++) {
            std::vector<std::thread> th;
            for (int j = 0; j < m; j++) {
                if (j >= W) th[j - W].join();
                th.emplace_back([&, j, r]() { int64_t o[4] = {OP_FFTPROD, op[2] * 131 + j + 1000 * r, j, j / 4}; hs[(size_t)r * m + j] = do_op(S, o); });
            }
            for (int j = std::max(0, m - W); j < m; j++) th[j].join();
        }
        return hash_words(hs.data(), hs.size() * 8, 23);
    }
    if (kind == OP_FFTPROD) { // product of thread-private polynomials, unrelated to the key
        IntPolynomial *a = new_IntPolynomial(N); TorusPolynomial *b = new_TorusPolynomial(N), *r = new_TorusPolynomial(N);
        fill_int(a->coefs, N, 512, (int)(op[2] % 4), (uint64_t)op[1]); fill_torus((uint32_t *)b->coefsT, N, (int)(op[3] % 4), (uint64_t)op[1] + 1);
        torusPolynomialMultFFT(r, a, b);
        uint64_t h = hash_words(r->coefsT, N * 4, 7);
        delete_IntPolynomial(a); delete_TorusPolynomial(b); delete_TorusPolynomial(r);
        return h;
    }
    if (kind == OP_LAGR) { // Lagrange-domain add / addmul on private objects, then transform back
        LagrangeHalfCPolynomial *L = new_LagrangeHalfCPolynomial_array(3, N);
        IntPolynomial *a = new_IntPolynomial(N); TorusPolynomial *b = new_TorusPolynomial(N), *r = new_TorusPolynomial(N);
        fill_int(a->coefs, N, 64, 0, (uint64_t)op[1]); fill_torus((uint32_t *)b->coefsT, N, 0, (uint64_t)op[1] + 9);
        IntPolynomial_ifft(L, a); TorusPolynomial_ifft(L + 1, b);
        LagrangeHalfCPolynomialClear(L + 2); LagrangeHalfCPolynomialAddMul(L + 2, L, L + 1); LagrangeHalfCPolynomialAddTo(L + 2, L + 1);
        TorusPolynomial_fft(r, L + 2);
        uint64_t h = hash_words(r->coefsT, N * 4, 11);
        delete_IntPolynomial(a); delete_TorusPolynomial(b); delete_TorusPolynomial(r); delete_LagrangeHalfCPolynomial_array(3, L);
        return h;
    }
    if (kind == OP_CHURN) { // allocate, fill and free thread-local heap memory: the next allocation on this thread reuses dirty memory
        size_t kb = 16 + (size_t)(op[1] % 512);
        std::vector<std::vector<double>> v;
        for (int q = 0; q < 4; q++) { v.emplace_back(kb * 128 / 4, 0.0); for (auto &x : v.back()) x = 1e300 * (q + 1.5); }
        volatile double sink = v[0][0]; (void)sink;
        return 0;
    }
    if (kind == OP_YIELD) { if (op[1] % 3 == 0) std::this_thread::yield(); else std::this_thread::sleep_for(std::chrono::microseconds(op[1] % 2000)); return 0; }
    return 0;
}
static bool has_output(int kind) { return kind <= 13 || kind == OP_WOKS || kind == OP_BOOTK || kind == OP_MODSWITCH || kind == OP_KARATSUBA || kind == OP_BURST; }

static std::map<std::vector<int64_t>, uint64_t> g_ref;
// Reference = the operation alone in a *fresh process image* (forked from a parent that has never evaluated anything) on a fresh thread:
// neither thread-local state, nor process-wide statics, nor heap history of earlier evaluations can reach it.
static uint64_t reference(const Shared &S, const std::vector<int64_t> &op) {
    auto it = g_ref.find(op);
    if (it != g_ref.end()) return it->second;
    uint64_t h = 0;
    int fd[2];
    if (pipe(fd)) { perror("pipe"); exit(3); }
    fflush(nullptr);
    pid_t pid = fork();
    if (pid == 0) {
        close(fd[0]);
        g_sequential = true;
        mallopt(M_PERTURB, 0x11); // reference and workload processes fill fresh / freed heap blocks with different bytes: an uninitialised read cannot agree by accident
        uint64_t hh = 0;
        std::thread t([&]() { hh = do_op(S, op.data()); });
        t.join();
        (void)!write(fd[1], &hh, 8);
        _exit(0);
    }
    close(fd[1]);
    if (read(fd[0], &h, 8) != 8) h = 0xdeadbeefdeadbeefull;
    close(fd[0]);
    int st; waitpid(pid, &st, 0);
    g_ref[op] = h;
    return h;
}

static std::string run_case(const J &c, std::string &sig) {
    sig = "c06/mismatch";
    const int lambda = (int)c["lambda"].i(128);
    const uint64_t keyseed = (uint64_t)c["keyseed"].i();
    KeySet *KS = nullptr;
    if (c["key_on_thread"].i()) { std::thread t([&]() { KS = &get_keyset(lambda, keyseed + 1000); }); t.join(); } // key generated on a thread that has exited
    else KS = &get_keyset(lambda, keyseed);
    Shared S; S.K = KS;
    S.in = new_gate_bootstrapping_ciphertext_array(NIN, KS->params);
    seed_lib((uint64_t)c["seed"].i(), 0xC06u);
    for (int i = 0; i < NIN; i++) bootsSymEncrypt(S.in + i, (int)((c["seed"].i() >> i) & 1), KS->sk);
    // inputs 6 and 7 are crafted so that AND(6,7) has a b that rounds to exactly 0 (and OR(6,7) to N/2): boundary paths of the rotation
    S.in[7].b = (int32_t)(MU8 - (uint32_t)S.in[6].b);
    BCfg c1; c1.n = 16; c1.k = 1; c1.l = 3; c1.Bgbit = 7; c1.t = 15; c1.bb = 1; c1.a_in = 1e-9; c1.a_bk = 1e-9; c1.seed = keyseed + 7;
    BCfg c2; c2.n = 10; c2.k = 1; c2.l = 2; c2.Bgbit = 10; c2.t = 4; c2.bb = 4; c2.a_in = 1e-9; c2.a_bk = 1e-9; c2.seed = keyseed + 8;
    if (c["key_on_thread"].i()) { c1.seed += 1000; c2.seed += 1000; std::thread t([&]() { S.extra[0] = &get_bkey(c1, 2); S.extra[1] = &get_bkey(c2, 2); }); t.join(); }
    else { S.extra[0] = &get_bkey(c1, 2); S.extra[1] = &get_bkey(c2, 2); }
    g_ref.clear();
    const J &threads = c["threads"];
    const int T = (int)threads.size();
    // references first (sequential, one fresh thread per operation)
    std::vector<std::vector<std::vector<int64_t>>> ops(T);
    for (int t = 0; t < T; t++) for (auto &o : threads[t]["ops"].av) { ops[t].push_back(o.ivec()); ops[t].back().resize(4, 0); }
    for (int t = 0; t < T; t++) for (auto &o : ops[t]) if (has_output((int)o[0])) reference(S, o);
    std::vector<std::vector<uint64_t>> out(T);
    int wfd[2];
    if (pipe(wfd)) { perror("pipe"); exit(3); }
    fflush(nullptr);
    pid_t wpid = fork();
    if (wpid != 0) { // parent: collect the child's outputs
        close(wfd[1]);
        std::string buf; char tmp[4096]; ssize_t nr;
        while ((nr = read(wfd[0], tmp, sizeof tmp)) > 0) buf.append(tmp, nr);
        close(wfd[0]);
        int st = 0; waitpid(wpid, &st, 0);
        if (WIFSIGNALED(st) && WTERMSIG(st) == SIGALRM) { delete_gate_bootstrapping_ciphertext_array(NIN, S.in); return "INCONCLUSIVE"; }
        if (!WIFEXITED(st) || WEXITSTATUS(st) != 0) {
            delete_gate_bootstrapping_ciphertext_array(NIN, S.in);
            char b2[160]; snprintf(b2, sizeof b2, "workload process %s %d", WIFSIGNALED(st) ? "killed by signal" : "exited with status", WIFSIGNALED(st) ? WTERMSIG(st) : WEXITSTATUS(st));
            sig = WIFEXITED(st) && WEXITSTATUS(st) == 66 ? "c06/tsan-report" : "c06/crash";
            return std::string(b2);
        }
        size_t pos = 0;
        for (int t = 0; t < T; t++) { uint64_t cnt = 0; if (pos + 8 <= buf.size()) memcpy(&cnt, buf.data() + pos, 8); pos += 8; for (uint64_t q = 0; q < cnt && pos + 8 <= buf.size(); q++) { uint64_t h; memcpy(&h, buf.data() + pos, 8); pos += 8; out[t].push_back(h); } }
    } else {
    close(wfd[0]);
    mallopt(M_PERTURB, 0xC3);
    alarm(240); // a workload that does not finish is inconclusive (time is never an oracle): SIGALRM ends the child
    std::atomic<int> ready(0); std::atomic<bool> go(false);
    std::atomic<bool> stop_aux(false);
    std::thread aux;
    if (c["keygen_thread"].i()) aux = std::thread([&]() { // key generation / encryption on its own data: the only user of the global generator
        LweParams *P = new_LweParams(300, 1e-4, 0.1); LweKey *K = new_LweKey(P); LweSample *s = new_LweSample(P);
        // ... and, every other round, a complete (small) gate-bootstrapping key set: ring key, bootstrapping key through this thread's own FFT processor, key-switching key
        LweParams *lp = new_LweParams(6, 1e-9, 0.01); TLweParams *tp = new_TLweParams(N, 1, 1e-9, 0.01); TGswParams *gp = new_TGswParams(2, 8, tp);
        TFheGateBootstrappingParameterSet *gps = new TFheGateBootstrappingParameterSet(2, 1, lp, gp);
        for (int round = 0; !stop_aux.load(); round++) {
            lweKeyGen(K); for (int q = 0; q < 20; q++) lweSymEncrypt(s, q, 1e-4, K);
            if (round & 1) { TFheGateBootstrappingSecretKeySet *ks2 = new_random_gate_bootstrapping_secret_keyset(gps); delete_gate_bootstrapping_secret_keyset(ks2); }
        }
        delete_gate_bootstrapping_parameters(gps); delete_TGswParams(gp); delete_TLweParams(tp); delete_LweParams(lp);
        delete_LweSample(s); delete_LweKey(K); delete_LweParams(P);
    });
    auto worker = [&](int t) {
        ready++;
        while (!go.load()) std::this_thread::yield();
        std::this_thread::sleep_for(std::chrono::microseconds(threads[t]["delay"].i() % 3000));
        size_t i = 0;
        // thread exit + respawn: the rest of the list continues on a brand-new thread
        std::function<void(size_t)> run = [&](size_t from) {
            for (i = from; i < ops[t].size(); i++) {
                if (ops[t][i][0] == OP_RESPAWN) { size_t next = i + 1; std::thread nt([&, next]() { run(next); }); nt.join(); return; }
                uint64_t h = do_op(S, ops[t][i].data());
                out[t].push_back(h);
            }
        };
        run(0);
    };
    std::vector<std::thread> th;
    for (int t = 0; t < T; t++) th.emplace_back(worker, t);
    while (ready.load() < T) std::this_thread::yield();
    go = true;
    for (auto &x : th) x.join();
    if (aux.joinable()) { stop_aux = true; aux.join(); }
    for (int t = 0; t < T; t++) { uint64_t cnt = out[t].size(); (void)!write(wfd[1], &cnt, 8); if (cnt) (void)!write(wfd[1], out[t].data(), cnt * 8); }
    close(wfd[1]);
    exit(0); // normal exit so that ThreadSanitizer can report (exitcode=66)
    }
    std::string why;
    char buf[300];
    for (int t = 0; t < T && why.empty(); t++) {
        size_t oi = 0;
        for (size_t i = 0; i < ops[t].size() && why.empty(); i++) {
            if (ops[t][i][0] == OP_RESPAWN) continue;
            uint64_t h = oi < out[t].size() ? out[t][oi] : 0; oi++;
            if (!has_output((int)ops[t][i][0])) continue;
            if (h != g_ref[ops[t][i]]) {
                snprintf(buf, sizeof buf, "thread %d of %d, operation #%zu (%s): output bytes differ from the sequential reference computed by a fresh thread (preceded by %zu operations on this thread)", t, T, i, opname((int)ops[t][i][0]), i);
                why = buf;
            }
        }
    }
    delete_gate_bootstrapping_ciphertext_array(NIN, S.in);
    return why;
}

int main(int argc, char **argv) {
    Args A(argc, argv);
    Harness H(A, "c06");
    H.run_case = [&](const J &c, std::string &sig) { std::string w = run_case(c, sig); if (w == "INCONCLUSIVE") { H.R.cls("inconclusive_workload_timeout"); return std::string(); } return w; };
    H.nontrivial = [](const J &c) {
        int evalthreads = 0; bool hist = false;
        for (auto &t : c["threads"].av) { int outs = 0, idx = 0; for (auto &o : t["ops"].av) { if (o[0].i() <= 11 || o[0].i() == OP_WOKS || o[0].i() == OP_BOOTK) { outs++; if (idx > 0) hist = true; } idx++; } if (outs) evalthreads++; }
        return evalthreads >= 2 || hist;
    };
    H.classify = [](const J &c) { int T = (int)c["threads"].size(); return std::string("T") + (T == 1 ? "1" : T <= 4 ? "2-4" : T <= 16 ? "5-16" : "17-64") + (c["key_on_thread"].i() ? "_keyFromExitedThread" : "") + (c["keygen_thread"].i() ? "_withKeygenThread" : "") + ([&]() { for (auto &t : c["threads"].av) for (auto &o : t["ops"].av) if (o[0].i() == OP_BURST) return "_threadChurnBursts"; return ""; })(); };
    if (H.mode == "replay") return H.replay(A.s("replay"));
    const uint64_t kseed = A.u("keyseed", 1);
    const bool offmain = A.i("offmain", 0) != 0; // every key is generated on helper threads that exit: the harness thread itself never runs an FFT
    const int burstw = (int)A.i("burstw", 3); // generator weight of the thread-churn operation
    const int maxT = (int)A.i("maxT", 64), maxops = (int)A.i("maxops", 4), lambda = (int)A.i("lambda", 128);
    H.rc_loop("C06 concurrent / history-laden evaluation is byte-identical to a fresh sequential reference", [&]() {
        J c = J::object();
        int T = *rc::gen::weightedElement<int>({{2, 1}, {3, 2}, {2, 3}, {3, 4}, {3, 8}, {2, 16}, {1, 32}, {1, 64}});
        if (T > maxT) T = maxT;
        c.set("lambda", lambda).set("keyseed", kseed).set("seed", *genSeed()).set("key_on_thread", offmain ? 1 : *rc::gen::weightedElement<int>({{3, 0}, {1, 1}})).set("keygen_thread", *rc::gen::weightedElement<int>({{3, 0}, {1, 1}}));
        J threads = J::array();
        auto opgen = rc::gen::map(rc::gen::tuple(rc::gen::weightedElement<int>({{6, 0}, {1, 1}, {2, 2}, {3, 3}, {1, 4}, {1, 5}, {1, 6}, {1, 7}, {1, 8}, {1, 9}, {4, 10}, {3, OP_BOOT}, {2, OP_WOKS}, {4, OP_BOOTK}, {2, OP_MODSWITCH}, {3, OP_KARATSUBA}, {burstw, OP_BURST}, {4, OP_FFTPROD}, {3, OP_LAGR}, {4, OP_CHURN}, {2, OP_YIELD}, {2, OP_RESPAWN}}),
                                                 rng<int>(0, 100000), rng<int>(0, 7), rng<int>(0, 7)),
                                  [](std::tuple<int, int, int, int> t) { return std::vector<int64_t>{std::get<0>(t), std::get<1>(t), std::get<2>(t), std::get<3>(t)}; });
        int budget = T <= 4 ? maxops : T <= 16 ? std::max(2, maxops - 1) : 2;
        for (int t = 0; t < T; t++) {
            J th = J::object();
            auto v = *rc::gen::resize(*rng<int>(1, budget), rc::gen::container<std::vector<std::vector<int64_t>>>(opgen));
            if (v.empty()) v.push_back({0, 1, 2, 3});
            J ops = J::array();
            for (auto &o : v) ops.push(J::arr(o));
            th.set("delay", *rng<int>(0, 3000)).set("ops", ops);
            threads.push(th);
        }
        c.set("threads", threads);
        return c;
    });
    return H.finish();
}
