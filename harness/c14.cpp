// C14 — ciphertext linear operations act exactly linearly on phases, for every dimension;
// extraction of coefficient j.  E1 rapidcheck (+ exhaustive j), guard-page buffers around the
// LWE masks (lweSubTo is inline assembly on AVX2 builds), cases run in a forked child.
#include "hmain.hpp"
#include <tfhe.h>
using namespace vf;

extern "C" void tLweNoiselessTrivialT(TLweSample *result, const Torus32 mu, const TLweParams *params); // exported, declared in no public header
static bool g_fork = true;

static uint32_t lwe_phase(const uint32_t *a, uint32_t b, const int32_t *key, int n) {
    uint32_t acc = 0;
    for (int i = 0; i < n; i++) acc += a[i] * (uint32_t)key[i];
    return b - acc;
}
static void fill_key(int32_t *k, int n, int kind, uint64_t seed) { // 0 binary, 1 arbitrary ints, 2 all ones, 3 zero
    SplitMix r(seed);
    for (int i = 0; i < n; i++) k[i] = kind == 0 ? (int32_t)(r.next() & 1) : kind == 1 ? r.i32() : kind == 2 ? 1 : 0;
}

static std::string lwe_case(const J &c) {
    const std::string op = c["op"].s();
    const int n = (int)c["n"].i();
    const int32_t p = (int32_t)c["p"].i();
    const bool tail = c["tail"].i(1) != 0, alias = c["alias"].i() != 0;
    LweParams *P = new_LweParams(n, 0., 1.);
    LweSample *r = new_LweSample(P), *s = new_LweSample(P);
    GuardBuf gr((size_t)n * 4, tail), gs((size_t)n * 4, tail);
    Torus32 *save_r = r->a, *save_s = s->a;
    r->a = gr.as<Torus32>(); s->a = gs.as<Torus32>();
    std::vector<uint32_t> A(n), B(n), ref(n);
    std::vector<int32_t> key(n);
    expand_poly(c["A"], n, A.data());
    expand_poly(c["B"], n, B.data());
    fill_key(key.data(), n, (int)c["keykind"].i(), (uint64_t)c["keyseed"].i());
    uint32_t bA = (uint32_t)c["bA"].i(), bB = (uint32_t)c["bB"].i();
    double vA = (double)c["vA"].i() / 1048576.0, vB = (double)c["vB"].i() / 1048576.0;
    memcpy(r->a, A.data(), (size_t)n * 4); r->b = (int32_t)bA; r->current_variance = vA;
    memcpy(s->a, B.data(), (size_t)n * 4); s->b = (int32_t)bB; s->current_variance = vB;
    uint32_t phA = lwe_phase(A.data(), bA, key.data(), n), phB = lwe_phase(B.data(), bB, key.data(), n);
    uint32_t refb = 0, refph = 0;
    double refv = 0;
    bool check_var = true;
    const LweSample *src = alias ? r : s; // in-place forms: result = operand
    const std::vector<uint32_t> &S = alias ? A : B;
    uint32_t bS = alias ? bA : bB, phS = alias ? phA : phB;
    double vS = alias ? vA : vB;
    if (op == "Clear") { lweClear(r, P); std::fill(ref.begin(), ref.end(), 0); refb = 0; refph = 0; refv = 0; }
    else if (op == "Copy") { lweCopy(r, src, P); ref = S; refb = bS; refph = phS; refv = vS; }
    else if (op == "Negate") { lweNegate(r, src, P); for (int i = 0; i < n; i++) ref[i] = 0u - S[i]; refb = 0u - bS; refph = 0u - phS; refv = vS; }
    else if (op == "NoiselessTrivial") { lweNoiselessTrivial(r, (int32_t)bB, P); std::fill(ref.begin(), ref.end(), 0); refb = bB; refph = bB; refv = 0; }
    else if (op == "AddTo") { lweAddTo(r, s, P); for (int i = 0; i < n; i++) ref[i] = A[i] + B[i]; refb = bA + bB; refph = phA + phB; refv = vA + vB; }
    else if (op == "SubTo") { lweSubTo(r, s, P); for (int i = 0; i < n; i++) ref[i] = A[i] - B[i]; refb = bA - bB; refph = phA - phB; refv = vA + vB; }
    else if (op == "AddMulTo") { lweAddMulTo(r, p, s, P); for (int i = 0; i < n; i++) ref[i] = A[i] + (uint32_t)p * B[i]; refb = bA + (uint32_t)p * bB; refph = phA + (uint32_t)p * phB; refv = vA + (double)p * p * vB; check_var = std::abs((int64_t)p) < 32768; }
    else if (op == "SubMulTo") { lweSubMulTo(r, p, s, P); for (int i = 0; i < n; i++) ref[i] = A[i] - (uint32_t)p * B[i]; refb = bA - (uint32_t)p * bB; refph = phA - (uint32_t)p * phB; refv = vA + (double)p * p * vB; check_var = std::abs((int64_t)p) < 32768; }
    std::string why;
    char buf[256];
    uint32_t got_ph = lwe_phase((uint32_t *)r->a, (uint32_t)r->b, key.data(), n);
    if (got_ph != refph) { snprintf(buf, sizeof buf, "lwe%s n=%d p=%d: phase of result %u, expected %u (phase(c1)=%u phase(c2)=%u)", op.c_str(), n, p, got_ph, refph, phA, phB); why = buf; }
    for (int i = 0; i < n && why.empty(); i++)
        if ((uint32_t)r->a[i] != ref[i]) { snprintf(buf, sizeof buf, "lwe%s n=%d p=%d: mask coefficient %d is %u, expected %u", op.c_str(), n, p, i, (uint32_t)r->a[i], ref[i]); why = buf; }
    if (why.empty() && (uint32_t)r->b != refb) { snprintf(buf, sizeof buf, "lwe%s n=%d: b is %u, expected %u", op.c_str(), n, (uint32_t)r->b, refb); why = buf; }
    if (why.empty() && check_var && r->current_variance != refv) { snprintf(buf, sizeof buf, "lwe%s n=%d p=%d: variance %.17g, expected var1+p^2*var2 = %.17g", op.c_str(), n, p, r->current_variance, refv); why = buf; }
    if (why.empty() && !alias && (memcmp(s->a, B.data(), (size_t)n * 4) || (uint32_t)s->b != bB || s->current_variance != vB)) why = "lwe" + op + ": operand sample was modified";
    if (why.empty() && (!gr.canary_ok() || !gs.canary_ok())) { snprintf(buf, sizeof buf, "lwe%s n=%d: write outside the mask arrays (canary changed)", op.c_str(), n); why = buf; }
    r->a = save_r; s->a = save_s;
    delete_LweSample(r); delete_LweSample(s); delete_LweParams(P);
    return why;
}

struct TL { // reference TLWE sample: (k+1) polynomials
    std::vector<std::vector<uint32_t>> a;
};
static void tl_phase(std::vector<uint32_t> &ph, const TL &t, const std::vector<std::vector<int32_t>> &key, int N, int k) {
    ph = t.a[k];
    std::vector<uint32_t> tmp(N);
    for (int i = 0; i < k; i++) {
        ref_negacyclic(tmp.data(), key[i].data(), t.a[i].data(), N);
        for (int j = 0; j < N; j++) ph[j] -= tmp[j];
    }
}
static void load(TLweSample *s, const TL &t, int N, int k) { for (int i = 0; i <= k; i++) memcpy(s->a[i].coefsT, t.a[i].data(), (size_t)N * 4); }
static bool same(const TLweSample *s, const TL &t, int N, int k, int *ci, int *cj) {
    for (int i = 0; i <= k; i++) for (int j = 0; j < N; j++) if ((uint32_t)s->a[i].coefsT[j] != t.a[i][j]) { *ci = i; *cj = j; return false; }
    return true;
}

static std::string tlwe_case(const J &c) {
    const std::string op = c["op"].s();
    const int N = (int)c["N"].i(), k = (int)c["kk"].i();
    const int32_t p = (int32_t)c["p"].i();
    TLweParams *P = new_TLweParams(N, k, 0., 1.);
    TLweSample *r = new_TLweSample(P), *s = new_TLweSample(P);
    TL A, B, ref;
    A.a.assign(k + 1, std::vector<uint32_t>(N)); B = A; ref = A;
    uint64_t sA = (uint64_t)c["A"]["seed"].i(), sB = (uint64_t)c["B"]["seed"].i();
    for (int i = 0; i <= k; i++) {
        J dA = c["A"], dB = c["B"];
        if (dA.has("v")) expand_poly(dA, N, A.a[i].data()); else fill_torus(A.a[i].data(), N, (int)dA["kind"].i(), sA + 1000 * i);
        if (dB.has("v")) expand_poly(dB, N, B.a[i].data()); else fill_torus(B.a[i].data(), N, (int)dB["kind"].i(), sB + 1000 * i);
        if (dA.has("v") && i) for (auto &x : A.a[i]) x = x * 2654435761u + i; // distinct components from one explicit vector
        if (dB.has("v") && i) for (auto &x : B.a[i]) x = x * 40503u + 7 * i;
    }
    std::vector<std::vector<int32_t>> key(k, std::vector<int32_t>(N));
    for (int i = 0; i < k; i++) fill_key(key[i].data(), N, (int)c["keykind"].i(), (uint64_t)c["keyseed"].i() + i);
    double vA = (double)c["vA"].i() / 1048576.0, vB = (double)c["vB"].i() / 1048576.0, refv = 0;
    load(r, A, N, k); r->current_variance = vA;
    load(s, B, N, k); s->current_variance = vB;
    std::vector<uint32_t> phA, phB, refph(N), tmp(N);
    tl_phase(phA, A, key, N, k); tl_phase(phB, B, key, N, k);
    bool check_var = true;
    const int a = (int)c["a"].i(), pos = (int)c["pos"].i() % (k + 1);
    const uint32_t x = (uint32_t)c["x"].i();
    IntPolynomial *ip = new_IntPolynomial(N);
    TorusPolynomial *mu = new_TorusPolynomial(N);
    std::vector<uint32_t> MU(N);
    fill_torus(MU.data(), N, 0, sB ^ 0xabc);
    memcpy(mu->coefsT, MU.data(), (size_t)N * 4);
    std::vector<int32_t> IP(N);
    fill_int(IP.data(), N, 50, 0, sA ^ 0xdef);
    memcpy(ip->coefs, IP.data(), (size_t)N * 4);
    if (op == "Clear") { tLweClear(r, P); for (auto &v : ref.a) std::fill(v.begin(), v.end(), 0); std::fill(refph.begin(), refph.end(), 0); }
    else if (op == "Copy") { tLweCopy(r, s, P); ref = B; refph = phB; refv = vB; }
    else if (op == "NoiselessTrivial") { tLweNoiselessTrivial(r, mu, P); for (auto &v : ref.a) std::fill(v.begin(), v.end(), 0); ref.a[k] = MU; refph = MU; }
    else if (op == "NoiselessTrivialT") { tLweNoiselessTrivialT(r, (int32_t)x, P); for (auto &v : ref.a) std::fill(v.begin(), v.end(), 0); ref.a[k][0] = x; std::fill(refph.begin(), refph.end(), 0); refph[0] = x; }
    else if (op == "AddTo") { tLweAddTo(r, s, P); for (int i = 0; i <= k; i++) for (int j = 0; j < N; j++) ref.a[i][j] = A.a[i][j] + B.a[i][j]; for (int j = 0; j < N; j++) refph[j] = phA[j] + phB[j]; refv = vA + vB; }
    else if (op == "SubTo") { tLweSubTo(r, s, P); for (int i = 0; i <= k; i++) for (int j = 0; j < N; j++) ref.a[i][j] = A.a[i][j] - B.a[i][j]; for (int j = 0; j < N; j++) refph[j] = phA[j] - phB[j]; refv = vA + vB; }
    else if (op == "AddMulTo") { tLweAddMulTo(r, p, s, P); for (int i = 0; i <= k; i++) for (int j = 0; j < N; j++) ref.a[i][j] = A.a[i][j] + (uint32_t)p * B.a[i][j]; for (int j = 0; j < N; j++) refph[j] = phA[j] + (uint32_t)p * phB[j]; refv = vA + (double)p * p * vB; check_var = std::abs((int64_t)p) < 32768; }
    else if (op == "SubMulTo") { tLweSubMulTo(r, p, s, P); for (int i = 0; i <= k; i++) for (int j = 0; j < N; j++) ref.a[i][j] = A.a[i][j] - (uint32_t)p * B.a[i][j]; for (int j = 0; j < N; j++) refph[j] = phA[j] - (uint32_t)p * phB[j]; refv = vA + (double)p * p * vB; check_var = std::abs((int64_t)p) < 32768; }
    else if (op == "AddTTo") { tLweAddTTo(r, pos, (int32_t)x, P); ref = A; ref.a[pos][0] += x; tl_phase(refph, ref, key, N, k); refv = vA; if (pos == k) { for (int j = 0; j < N; j++) if (refph[j] != phA[j] + (j == 0 ? x : 0)) return std::string("harness self-check failed (AddTTo)"); } }
    else if (op == "AddRTTo") { tLweAddRTTo(r, pos, ip, (int32_t)x, P); ref = A; for (int j = 0; j < N; j++) ref.a[pos][j] += (uint32_t)IP[j] * x; tl_phase(refph, ref, key, N, k); refv = vA; }
    else if (op == "MulByXaiMinusOne") {
        tLweMulByXaiMinusOne(r, a, s, P);
        for (int i = 0; i <= k; i++) { ref_mulxai(ref.a[i].data(), a, B.a[i].data(), N); for (int j = 0; j < N; j++) ref.a[i][j] -= B.a[i][j]; }
        ref_mulxai(refph.data(), a, phB.data(), N); for (int j = 0; j < N; j++) refph[j] -= phB[j];
        check_var = false;
    }
    std::string why;
    char buf[256];
    int ci = 0, cj = 0;
    TL got; got.a.assign(k + 1, std::vector<uint32_t>(N));
    for (int i = 0; i <= k; i++) memcpy(got.a[i].data(), r->a[i].coefsT, (size_t)N * 4);
    std::vector<uint32_t> gph;
    tl_phase(gph, got, key, N, k);
    for (int j = 0; j < N && why.empty(); j++)
        if (gph[j] != refph[j]) { snprintf(buf, sizeof buf, "tLwe%s N=%d k=%d p=%d a=%d: phase coefficient %d is %u, expected %u", op.c_str(), N, k, p, a, j, gph[j], refph[j]); why = buf; }
    if (why.empty() && !same(r, ref, N, k, &ci, &cj)) { snprintf(buf, sizeof buf, "tLwe%s N=%d k=%d: component %d coefficient %d is %u, expected %u", op.c_str(), N, k, ci, cj, (uint32_t)r->a[ci].coefsT[cj], ref.a[ci][cj]); why = buf; }
    if (why.empty() && check_var && r->current_variance != refv) { snprintf(buf, sizeof buf, "tLwe%s p=%d: variance %.17g, expected %.17g", op.c_str(), p, r->current_variance, refv); why = buf; }
    if (why.empty() && (!same(s, B, N, k, &ci, &cj) || s->current_variance != vB)) why = "tLwe" + op + ": operand sample was modified";
    if (why.empty() && r->b != r->a + k) why = "tLwe" + op + ": b no longer aliases a[k]";
    delete_IntPolynomial(ip); delete_TorusPolynomial(mu);
    delete_TLweSample(r); delete_TLweSample(s); delete_TLweParams(P);
    return why;
}

// extraction of coefficient j (all j when "j" < 0)
static std::string extract_case(const J &c) {
    const int N = (int)c["N"].i(), k = (int)c["kk"].i();
    TLweParams *P = new_TLweParams(N, k, 0., 1.);
    TLweSample *s = new_TLweSample(P);
    TLweKey *K = new_TLweKey(P);
    const LweParams *LP = &P->extracted_lweparams;
    LweKey *LK = new_LweKey(LP);
    LweSample *out = new_LweSample(LP);
    GuardBuf go((size_t)k * N * 4, c["tail"].i(1) != 0);
    Torus32 *save = out->a; out->a = go.as<Torus32>();
    TL A; A.a.assign(k + 1, std::vector<uint32_t>(N));
    std::vector<std::vector<int32_t>> key(k, std::vector<int32_t>(N));
    for (int i = 0; i <= k; i++) fill_torus(A.a[i].data(), N, (int)c["A"]["kind"].i(), (uint64_t)c["A"]["seed"].i() + 1000 * i);
    for (int i = 0; i < k; i++) { fill_key(key[i].data(), N, (int)c["keykind"].i(), (uint64_t)c["keyseed"].i() + i); memcpy(K->key[i].coefs, key[i].data(), (size_t)N * 4); }
    load(s, A, N, k);
    std::vector<uint32_t> ph;
    tl_phase(ph, A, key, N, k);
    tLweExtractKey(LK, K);
    std::string why;
    char buf[256];
    for (int i = 0; i < k && why.empty(); i++) for (int j = 0; j < N; j++) if (LK->key[i * N + j] != key[i][j]) { snprintf(buf, sizeof buf, "tLweExtractKey N=%d k=%d: entry %d is %d, expected key polynomial %d coefficient %d = %d", N, k, i * N + j, LK->key[i * N + j], i, j, key[i][j]); why = buf; break; }
    int jlo = (int)c["j"].i(), jhi = jlo;
    if (jlo < 0) { jlo = 0; jhi = N - 1; }
    for (int j = jlo; j <= jhi && why.empty(); j++) {
        memset(out->a, 0x3c, (size_t)k * N * 4);
        if (j == 0 && c["j"].i() >= 0 && c["useplain"].i()) tLweExtractLweSample(out, s, LP, P);
        else tLweExtractLweSampleIndex(out, s, j, LP, P);
        uint32_t got = lwe_phase((uint32_t *)out->a, (uint32_t)out->b, LK->key, k * N);
        if (got != ph[j]) { snprintf(buf, sizeof buf, "tLweExtractLweSampleIndex N=%d k=%d j=%d: LWE phase %u, TLWE phase coefficient %u", N, k, j, got, ph[j]); why = buf; }
        int ci, cj;
        if (why.empty() && !same(s, A, N, k, &ci, &cj)) why = "extraction modified its input";
    }
    if (why.empty() && !go.canary_ok()) why = "extraction wrote outside the LWE mask (canary changed)";
    out->a = save;
    delete_LweSample(out); delete_LweKey(LK); delete_TLweKey(K); delete_TLweSample(s); delete_TLweParams(P);
    return why;
}

static std::string run_case(const J &c, std::string &sig) {
    const std::string k = c["k"].s();
    sig = "c14/" + k + "/" + c["op"].s();
    std::function<std::string()> f;
    if (k == "lwe") f = [&]() { return lwe_case(c); };
    else if (k == "tlwe") f = [&]() { return tlwe_case(c); };
    else f = [&]() { return extract_case(c); };
    std::string why = (g_fork && k != "tlwe") ? forked(f) : f();
    if (k == "lwe" && why.find("signal") != std::string::npos) sig += c["n"].i() < 8 ? "/oob/n<8" : "/oob";
    if (k == "lwe" && why.find("canary") != std::string::npos) sig += c["n"].i() < 8 ? "/oob/n<8" : "/oob";
    return why;
}

static const char *LWE_OPS[] = {"Clear", "Copy", "Negate", "NoiselessTrivial", "AddTo", "SubTo", "AddMulTo", "SubMulTo"};
static const char *TLWE_OPS[] = {"Clear", "Copy", "NoiselessTrivial", "NoiselessTrivialT", "AddTo", "SubTo", "AddMulTo", "SubMulTo", "AddTTo", "AddRTTo", "MulByXaiMinusOne"};

static J kind(int k, uint64_t s) { J j = J::object(); j.set("kind", k).set("seed", s); return j; }

int main(int argc, char **argv) {
    Args A(argc, argv);
    Harness H(A, "c14");
    g_fork = A.i("fork", 1) != 0;
    H.run_case = run_case;
    H.nontrivial = [](const J &c) {
        const std::string k = c["k"].s();
        int64_t p = c["p"].i();
        if (k == "lwe") return c["n"].i() % 8 != 0 || p == 0 || p == INT32_MIN;
        if (k == "tlwe") return p == 0 || p == INT32_MIN || c["kk"].i() > 1 || poly_extreme(c["A"]);
        return c["j"].i() <= 0 || c["j"].i() == c["N"].i() - 1;
    };
    H.classify = [](const J &c) { return c["k"].s() + "_" + c["op"].s(); };
    if (H.mode == "replay") return H.replay(A.s("replay"));
    if (H.mode == "lwe_grid") { // every n in 1..40 and the listed large ones x every op x both guard sides
        uint64_t seed = A.u("seed", 1);
        std::vector<int> ns;
        for (int n = 1; n <= 40; n++) ns.push_back(n);
        for (int n : {500, 630, 1023, 1024, 1025, 2048}) ns.push_back(n);
        for (int n : ns) for (const char *op : LWE_OPS) for (int tail = 0; tail < 2; tail++) for (int64_t p : {0ll, 1ll, -1ll, 2ll, (long long)INT32_MIN, (long long)INT32_MAX, 12345ll}) {
            if (p != 1 && std::string(op).find("Mul") == std::string::npos) continue;
            J c = J::object();
            c.set("k", "lwe").set("op", op).set("n", n).set("p", p).set("tail", tail).set("alias", 0);
            c.set("A", kind(0, seed + n)).set("B", kind(n % 3 == 0 ? 3 : 0, seed * 7 + n)).set("keykind", n % 2).set("keyseed", seed + 3 * n);
            c.set("bA", (uint64_t)mix64(seed, n) & 0xffffffffu).set("bB", (uint64_t)mix64(seed, n + 99) & 0xffffffffu).set("vA", 3).set("vB", 5);
            H.exec(c, false);
            if (H.R.failure_count > 30) return H.finish();
        }
        return H.finish();
    }
    if (H.mode == "extract_sweep") { // every j for N in powers of two (and a few odd sizes), k in 1..3
        uint64_t seed = A.u("seed", 1);
        int Nmax = (int)A.i("Nmax", 1024);
        std::vector<int> Ns;
        for (int N = 1; N <= Nmax; N *= 2) Ns.push_back(N);
        for (int N : {3, 5, 6, 7, 12, 100}) if (N <= Nmax) Ns.push_back(N);
        for (int N : Ns) for (int k = 1; k <= 3; k++) for (int kk = 0; kk < 2; kk++) {
            J c = J::object();
            c.set("k", "extract").set("op", "ExtractIndex").set("N", N).set("kk", k).set("j", -1).set("tail", kk).set("useplain", 0);
            c.set("A", kind(kk ? 3 : 0, seed + N * 5 + k)).set("keykind", kk).set("keyseed", seed + N + k);
            H.exec(c, false);
            H.R.evaluations += N - 1; H.R.exhaustive_nontrivial += N > 1 ? 1 : 0; // N indices per call; j=0 and j=N-1 non-trivial
        }
        return H.finish();
    }
    H.rc_loop("C14 linear operations on LWE/TLWE samples are exactly linear on phases", [&]() {
        int which = *rng<int>(0, 9);
        J c = J::object();
        int64_t p = *rc::gen::oneOf(rc::gen::element<int64_t>(0, 1, -1, 2, -2, INT32_MIN, INT32_MAX), rng<int64_t>(-32767, 32767), genCoef());
        c.set("p", p).set("tail", *rng<int>(0, 1)).set("keykind", *rc::gen::weightedElement<int>({{4, 0}, {3, 1}, {1, 2}, {1, 3}})).set("keyseed", *genSeed());
        c.set("vA", *rng<int>(0, 1000)).set("vB", *rng<int>(0, 1000));
        if (which < 5) {
            int n = *rc::gen::weightedOneOf<int>({{8, rng<int>(1, 40)}, {2, rc::gen::element<int>(500, 630, 1023, 1024, 1025, 2048)}});
            std::string op = LWE_OPS[*rng<int>(0, 7)];
            c.set("k", "lwe").set("op", op).set("n", n).set("alias", (op == "Copy" || op == "Negate") ? *rng<int>(0, 1) : 0);
            c.set("A", *genPolyDesc(n)).set("B", *genPolyDesc(n)).set("bA", *genU32()).set("bB", *genU32());
        } else if (which < 8) {
            int N = *rc::gen::weightedOneOf<int>({{6, rng<int>(2, 40)}, {2, rc::gen::element<int>(64, 128, 256, 512, 1024)}});
            c.set("k", "tlwe").set("op", TLWE_OPS[*rng<int>(0, 10)]).set("N", N).set("kk", *rng<int>(1, 3));
            c.set("A", *genPolyDesc(N)).set("B", *genPolyDesc(N)).set("a", *rc::gen::oneOf(rng<int>(0, 2 * N - 1), rc::gen::element<int>(0, N - 1, N, 2 * N - 1)));
            c.set("pos", *rng<int>(0, 3)).set("x", *genU32());
        } else {
            int N = *rc::gen::weightedOneOf<int>({{6, rng<int>(1, 40)}, {2, rc::gen::element<int>(64, 256, 1024)}});
            int j = *rc::gen::oneOf(rng<int>(0, N - 1), rc::gen::element<int>(0, N - 1));
            c.set("k", "extract").set("op", "ExtractIndex").set("N", N).set("kk", *rng<int>(1, 3)).set("j", j).set("useplain", *rng<int>(0, 1));
            c.set("A", kind(*rc::gen::element<int>(0, 0, 3, 1, 2), *genSeed()));
        }
        return c;
    });
    return H.finish();
}
