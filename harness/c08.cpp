// C08 — key switching preserves the phase up to the round-to-nearest truncation of each mask
// coefficient plus the noise of the rows actually used.  E2 (all 2^32 mask values per layout on a
// harness-built noise-free key) + E1 rapidcheck (layouts, dimensions, boundary masks, real keys).
#include "hmain.hpp"
#include <tfhe.h>
using namespace vf;

static void seed_lib(uint64_t s) {
    uint32_t v[4] = {(uint32_t)s, (uint32_t)(s >> 32), 0xC08u, (uint32_t)(s * 2654435761u)};
    tfhe_random_generator_setSeed(v, 4);
}
static uint32_t phase(const LweSample *s, const int32_t *key, int n) {
    uint32_t acc = 0;
    for (int i = 0; i < n; i++) acc += (uint32_t)s->a[i] * (uint32_t)key[i];
    return (uint32_t)s->b - acc;
}
struct Ctx {
    int nin, nout, t, bb, base, w;
    uint32_t off;
    LweParams *Pin, *Pout;
    LweKey *Kin, *Kout;
    LweKeySwitchKey *ks;
    std::vector<int32_t> err; // measured row errors e[i][j][h] (0 for noise-free keys)
    Ctx(int nin_, int nout_, int t_, int bb_, double alpha) : nin(nin_), nout(nout_), t(t_), bb(bb_) {
        base = 1 << bb; w = 32 - t * bb; off = w >= 1 ? (uint32_t)1 << (w - 1) : 0;
        Pin = new_LweParams(nin, alpha, 1.); Pout = new_LweParams(nout, alpha, 1.);
        Kin = new_LweKey(Pin); Kout = new_LweKey(Pout);
        ks = new_LweKeySwitchKey(nin, t, bb, Pout);
    }
    ~Ctx() { delete_LweKeySwitchKey(ks); delete_LweKey(Kin); delete_LweKey(Kout); delete_LweParams(Pin); delete_LweParams(Pout); }
    void keys(uint64_t seed, int keykind) { // 0 random binary, 1 all ones
        SplitMix r(seed);
        for (int i = 0; i < nin; i++) Kin->key[i] = keykind ? 1 : (int32_t)(r.next() & 1);
        for (int i = 0; i < nout; i++) Kout->key[i] = (int32_t)(r.next() & 1);
        if (nin == 1) Kin->key[0] = 1;
    }
    // exact noise-free rows through the public structure: b = <a,s_out> + h*s_i*2^(32-(j+1)bb)
    void build_noisefree(uint64_t seed) {
        SplitMix r(seed ^ 0xabcdef);
        for (int i = 0; i < nin; i++) for (int j = 0; j < t; j++) for (int h = 0; h < base; h++) {
            LweSample *row = &ks->ks[i][j][h];
            if (h == 0) { for (int p = 0; p < nout; p++) row->a[p] = 0; row->b = 0; row->current_variance = 0; continue; }
            uint32_t acc = 0;
            for (int p = 0; p < nout; p++) { uint32_t a = r.u32(); row->a[p] = (int32_t)a; acc += a * (uint32_t)Kout->key[p]; }
            row->b = (int32_t)(acc + (uint32_t)(h * Kin->key[i]) * ((uint32_t)1 << (32 - (j + 1) * bb)));
            row->current_variance = 0;
        }
        err.assign((size_t)nin * t * base, 0);
    }
    // rows made by the library; every row (i,j,h) must encrypt h*s_i/base^(j+1) with noise of the key's standard deviation alpha:
    // |error| <= 9 alpha (+2 units of rounding) or the row is reported (returns a description, "" if all rows are fine)
    std::string build_real(uint64_t seed) {
        seed_lib(seed);
        lweCreateKeySwitchKey(ks, Kin, Kout);
        err.assign((size_t)nin * t * base, 0);
        std::string bad;
        const double lim = 9.0 * Pout->alpha_min * 4294967296.0 + 2;
        row_err_sum2 = 0; row_err_cnt = 0;
        for (int i = 0; i < nin; i++) for (int j = 0; j < t; j++) for (int h = 0; h < base; h++) {
            uint32_t ph = phase(&ks->ks[i][j][h], Kout->key, nout);
            uint32_t msg = (uint32_t)(h * Kin->key[i]) * ((uint32_t)1 << (32 - (j + 1) * bb));
            int32_t e = (int32_t)(ph - msg);
            err[((size_t)i * t + j) * base + h] = e;
            if (h) { row_err_sum2 += (double)e * e; row_err_cnt++; }
            if (bad.empty() && std::fabs((double)e) > lim) {
                char buf[300]; snprintf(buf, sizeof buf, "lweCreateKeySwitchKey t=%d basebit=%d: row (i=%d, j=%d, h=%d) has phase %u, expected h*s_i*2^-%d = %u: off by %d units, noise stdev is %.3g units (s_i=%d)", t, bb, i, j, h, ph, (j + 1) * bb, msg, e, Pout->alpha_min * 4294967296.0, Kin->key[i]);
                bad = buf;
            }
        }
        return bad;
    }
    double row_err_sum2 = 0; size_t row_err_cnt = 0;
};
// boundary-biased mask coefficient
static uint32_t bd_value(SplitMix &r, const Ctx &X) {
    int sel = (int)(r.next() % 8);
    int j = (int)(r.next() % X.t);
    int sh = 32 - (j + 1) * X.bb;
    uint32_t kq = (uint32_t)(r.next() << sh);
    int32_t d = (int32_t)(r.next() % 5) - 2;
    switch (sel) {
        case 0: case 1: return kq - X.off + d;          // digit boundary after the rounding offset (carry into digit j)
        case 2: return kq + d;                           // raw digit boundary
        case 3: return (uint32_t)0 - X.off + d;          // top of the range: wraps to 0
        case 4: return (uint32_t)d;                      // around 0
        case 5: return 0x80000000u + d;
        case 6: return (uint32_t)(((r.next() << X.w) & 0xffffffffu) + X.off + d); // exact rounding ties +- 2
        default: return r.u32();
    }
}

// checks one key-switch call; returns "" or the reason.
static std::string check_sample(Ctx &X, LweSample *in, LweSample *out, bool tie_free_needed) {
    std::vector<uint32_t> a_copy(X.nin);
    memcpy(a_copy.data(), in->a, (size_t)X.nin * 4);
    int32_t b_copy = in->b;
    lweKeySwitch(out, X.ks, in);
    char buf[320];
    if (memcmp(a_copy.data(), in->a, (size_t)X.nin * 4) || in->b != b_copy) return "lweKeySwitch modified its input sample";
    uint32_t D = phase(out, X.Kout->key, X.nout) - phase(in, X.Kin->key, X.nin);
    // expected: sum_i s_i (a_i - round_w(a_i))  -  sum of the errors of the rows (i,j,d_ij != 0); ties (a_i+off = 0 mod 2^w exactly at the half) may go either way
    uint32_t expect = 0;
    int ties = 0;
    const uint32_t wmask = X.w >= 32 ? 0xffffffffu : (((uint32_t)1 << X.w) - 1);
    for (int i = 0; i < X.nin; i++) {
        uint32_t a = a_copy[i];
        uint32_t abar = a + X.off;
        uint32_t rounded = X.w >= 32 ? 0 : (abar & ~wmask);
        if (X.Kin->key[i]) {
            expect += (uint32_t)X.Kin->key[i] * (a - rounded);
            if (X.w >= 1 && (abar & wmask) == 0 && X.off != 0) ties++; // a sits exactly on (k+1/2)*2^w: rounding up gives -off, down +off
        }
        for (int j = 0; j < X.t; j++) {
            uint32_t d = (abar >> (32 - (j + 1) * X.bb)) & (uint32_t)(X.base - 1);
            if (d) expect -= (uint32_t)X.err[((size_t)i * X.t + j) * X.base + d];
        }
    }
    uint32_t delta = D - expect;
    bool ok = delta == 0;
    if (!ok && ties && !tie_free_needed) { // delta must be m * 2*off with 0 <= m <= ties
        uint64_t step = 2ull * X.off;
        if (delta % step == 0 && delta / step <= (uint64_t)ties) ok = true;
    }
    if (!ok) {
        snprintf(buf, sizeof buf, "lweKeySwitch t=%d basebit=%d n_in=%d n_out=%d: phase_out - phase_in = %d units, expected %d (truncation remainders of the mask coefficients with key bit set%s); a[0]=%u",
                 X.t, X.bb, X.nin, X.nout, (int32_t)D, (int32_t)expect, X.err.empty() ? "" : " minus the errors of the rows used", a_copy[0]);
        return buf;
    }
    if (out->current_variance < 0) return "negative variance annotation";
    return "";
}

static std::string run_case(const J &c, std::string &sig) {
    sig = "c08/" + c["k"].s();
    const int t = (int)c["t"].i(), bb = (int)c["basebit"].i(), nin = (int)c["nin"].i(), nout = (int)c["nout"].i();
    const bool real = c["k"].s() == "real";
    Ctx X(nin, nout, t, bb, real ? std::ldexp(1.0, -(int)c["alog"].i(15)) : 0.0);
    X.keys((uint64_t)c["keyseed"].i(), (int)c["keykind"].i());
    if (real) { std::string bad = X.build_real((uint64_t)c["keyseed"].i()); if (!bad.empty()) { sig = "c08/real-row"; return bad; } } else X.build_noisefree((uint64_t)c["keyseed"].i());
    LweSample *in = new_LweSample(X.Pin), *out = new_LweSample(X.Pout);
    GuardBuf go((size_t)nout * 4, c["tail"].i(1) != 0);
    Torus32 *save = out->a; out->a = go.as<Torus32>();
    SplitMix r((uint64_t)c["maskseed"].i());
    std::string why;
    const int samples = (int)c["samples"].i(1), mk = (int)c["maskkind"].i();
    std::vector<int64_t> first = c["a0"].ivec();
    double sum = 0, sum2 = 0;
    for (int q = 0; q < samples && why.empty(); q++) {
        for (int i = 0; i < nin; i++) in->a[i] = (int32_t)(mk == 0 ? r.u32() : mk == 1 ? bd_value(r, X) : (r.next() & 1 ? bd_value(r, X) : r.u32()));
        if (q == 0) for (size_t i = 0; i < first.size() && (int)i < nin; i++) in->a[i] = (int32_t)(uint32_t)first[i];
        in->b = r.i32(); in->current_variance = 0;
        memset(out->a, 0x77, (size_t)nout * 4);
        why = check_sample(X, in, out, false);
        if (why.empty() && !go.canary_ok()) why = "lweKeySwitch wrote outside the result mask (canary changed)";
    }
    (void)sum; (void)sum2;
    out->a = save;
    delete_LweSample(in); delete_LweSample(out);
    return why;
}

int main(int argc, char **argv) {
    Args A(argc, argv);
    Harness H(A, "c08");
    H.run_case = [&](const J &c, std::string &sig) { return A.i("fork", 0) ? forked([&]() { std::string s; return run_case(c, s); }) : run_case(c, sig); };
    H.nontrivial = [](const J &c) { return c["maskkind"].i() != 0 || c["nin"].i() % 8 != 0 || c["nout"].i() % 8 != 0; };
    H.classify = [](const J &c) { return c["k"].s() + (c["nout"].i() < 8 ? "_nout<8" : ""); };
    if (H.mode == "replay") {
        J f = J::parse_file(A.s("replay"));
        if (f["case"]["k"].s() != "sweepfail") return H.replay(A.s("replay"));
    }
    if (H.mode == "sweep" || H.mode == "replay") { // every value of a single mask coefficient on a noise-free key
        int t, bb; uint64_t lo, hi; int nout = (int)A.i("nout", 5);
        if (H.mode == "replay") { J c = J::parse_file(A.s("replay"))["case"]; t = (int)c["t"].i(); bb = (int)c["basebit"].i(); lo = (uint64_t)c["a"].i(); hi = lo + 1; nout = (int)c["nout"].i(5); }
        else { t = (int)A.i("t", 8); bb = (int)A.i("basebit", 2); lo = A.u("lo", 0); hi = A.u("hi", 1ull << 32); }
        Ctx X(1, nout, t, bb, 0.0);
        X.keys(A.u("seed", 1) + 17 * t + bb, 0);
        X.build_noisefree(A.u("seed", 1) + 31 * t + bb);
        X.err.clear(); // noise-free
        X.err.assign((size_t)t * X.base, 0);
        LweSample *in = new_LweSample(X.Pin), *out = new_LweSample(X.Pout);
        J cur = J::object(); cur.set("k", "sweep").set("t", t).set("basebit", bb).set("lo", lo).set("hi", hi); set_current(cur);
        int64_t sumD = 0; uint64_t nontriv = 0;
        const uint32_t wmask = X.w >= 32 ? 0xffffffffu : (((uint32_t)1 << X.w) - 1);
        for (uint64_t a = lo; a < hi; a++) {
            in->a[0] = (int32_t)(uint32_t)a; in->b = (int32_t)(uint32_t)(a * 2654435761u);
            lweKeySwitch(out, X.ks, in);
            uint32_t D = phase(out, X.Kout->key, nout) - ((uint32_t)in->b - (uint32_t)a);
            int32_t e = (int32_t)D;
            uint32_t abar = (uint32_t)a + X.off;
            uint32_t low = abar & wmask;
            bool tie = X.off && low == 0;
            // a - D must be a multiple of 2^w, |D| <= off; at a tie both -off and +off are admissible
            bool ok = (((uint32_t)a - D) & wmask) == 0 && (e >= -(int64_t)X.off) && (e <= (int64_t)X.off) && (e != (int64_t)X.off || tie);
            sumD += e;
            if (low <= 1 || low >= wmask - 1 || a >= (1ull << 32) - X.off - 2 || a <= 1) nontriv++;
            if (!ok) {
                J fc = J::object(); fc.set("k", "sweepfail").set("t", t).set("basebit", bb).set("a", a).set("nout", nout);
                char buf[200]; snprintf(buf, sizeof buf, "mask value %llu (t=%d, basebit=%d): phase error %d units is not the round-to-nearest truncation remainder (|e| <= %u, a-e multiple of 2^%d)", (unsigned long long)a, t, bb, e, X.off, X.w);
                H.R.fail(fc, buf, "c08/sweep");
                if (H.R.failure_count > 20) break;
            }
        }
        H.R.evaluations += hi - lo; H.R.exhaustive_nontrivial += nontriv;
        H.R.stats["sum_phase_error_units"] = (double)sumD;
        H.R.stats["values"] = (double)(hi - lo);
        J s = J::object(); s.set("k", "sweep").set("t", t).set("basebit", bb).set("lo", lo).set("hi", hi).set("n_out", nout); H.R.note_sample(s);
        H.R.cls("sweep_t" + std::to_string(t) + "_bb" + std::to_string(bb), hi - lo);
        delete_LweSample(in); delete_LweSample(out);
        if (H.mode == "replay") printf(H.R.failure_count ? "REPLAY-FAIL\n" : "REPLAY-PASS\n");
        return H.finish();
    }
    if (H.mode == "realstats") { // >= samples on a library-generated key: exact per-sample identity + moments of the residual
        int t = (int)A.i("t", 8), bb = (int)A.i("basebit", 2), nin = (int)A.i("nin", 1024), nout = (int)A.i("nout", 500), samples = (int)A.i("samples", 20000);
        uint64_t seed = A.u("seed", 1);
        Ctx X(nin, nout, t, bb, std::ldexp(1.0, -(int)A.i("alog", 15)));
        X.keys(seed, 0);
        J cur = J::object(); cur.set("k", "realstats").set("t", t).set("basebit", bb).set("nin", nin).set("nout", nout).set("seed", seed); set_current(cur);
        { std::string bad = X.build_real(seed); if (!bad.empty()) { H.R.fail(cur, bad, "c08/real-row"); return H.finish(); } }
        { // the rows carry noise of the key's standard deviation (variance test over all rows, z = 6; +1/12 for the rounding to 2^-32)
            double sig2 = std::pow(X.Pout->alpha_min * 4294967296.0, 2) + 1.0 / 12, v = X.row_err_sum2 / (double)X.row_err_cnt;
            double z = std::fabs(v / sig2 - 1) / std::sqrt(2.0 / (double)X.row_err_cnt);
            H.R.stats["row_noise_var_units2"] = v; H.R.stats["row_noise_var_expected"] = sig2; H.R.stats["z_row_var"] = z;
            if (z > 6) { char buf[200]; snprintf(buf, sizeof buf, "key-switching key rows: noise variance %.4g units^2 over %zu rows, the key's alpha gives %.4g (z=%.1f)", v, X.row_err_cnt, sig2, z); H.R.fail(cur, buf, "c08/real-row-stats"); return H.finish(); }
        }
        LweSample *in = new_LweSample(X.Pin), *out = new_LweSample(X.Pout);
        SplitMix r(seed ^ 0x5151);
        // expectation of the noise term under uniform digits, from the measured row errors
        double em = 0, ev = 0;
        for (int i = 0; i < nin; i++) for (int j = 0; j < t; j++) {
            double m1 = 0, m2 = 0;
            for (int h = 1; h < X.base; h++) { double e = X.err[((size_t)i * t + j) * X.base + h]; m1 += e; m2 += e * e; }
            m1 /= X.base; m2 /= X.base;
            em -= m1; ev += m2 - m1 * m1;
        }
        double s1 = 0, s2 = 0;
        for (int q = 0; q < samples; q++) {
            for (int i = 0; i < nin; i++) in->a[i] = r.i32();
            in->b = r.i32();
            std::string why = check_sample(X, in, out, true);
            if (!why.empty()) { H.R.fail(cur, why, "c08/real-identity"); break; }
            // noise part of the residual = D - rounding part
            uint32_t D = phase(out, X.Kout->key, nout) - phase(in, X.Kin->key, nin);
            uint32_t rnd = 0;
            const uint32_t wmask = (((uint32_t)1 << X.w) - 1);
            for (int i = 0; i < nin; i++) if (X.Kin->key[i]) rnd += (uint32_t)in->a[i] - (((uint32_t)in->a[i] + X.off) & ~wmask);
            double res = (double)(int32_t)(D - rnd);
            s1 += res; s2 += res * res;
            H.R.evaluations++;
        }
        double mean = s1 / samples, var = s2 / samples - mean * mean;
        H.R.stats["residual_mean_units"] = mean; H.R.stats["residual_var_units2"] = var;
        H.R.stats["expected_mean_units"] = em; H.R.stats["expected_var_units2"] = ev; H.R.stats["samples"] = samples;
        // z = 6 two-sided on the mean, and on the variance with Gaussian-ish kurtosis 3 (sum of ~n*t/2 independent terms)
        double zmean = std::fabs(mean - em) / std::sqrt(ev / samples);
        double zvar = std::fabs(var - ev) / (ev * std::sqrt(2.0 / samples));
        H.R.stats["z_mean"] = zmean; H.R.stats["z_var"] = zvar;
        if (H.R.failure_count == 0 && (zmean > 6 || zvar > 6)) {
            char buf[200]; snprintf(buf, sizeof buf, "key-switch noise statistics off: mean %.1f (expected %.1f), variance %.4g (expected %.4g), z=%.1f/%.1f", mean, em, var, ev, zmean, zvar);
            H.R.fail(cur, buf, "c08/real-stats");
        }
        H.R.exhaustive_nontrivial += 1;
        H.R.note_sample(cur);
        delete_LweSample(in); delete_LweSample(out);
        return H.finish();
    }
    H.rc_loop("C08 key switching preserves the phase up to round-to-nearest truncation (+ row noise)", [&]() {
        J c = J::object();
        int bb = *rc::gen::weightedOneOf<int>({{5, rng<int>(1, 4)}, {2, rng<int>(5, 10)}});
        int t = *rc::gen::weightedOneOf<int>({{3, rng<int>(1, 31 / bb)}, {1, rc::gen::just(31 / bb)}});
        int nin = *rc::gen::weightedOneOf<int>({{6, rc::gen::element<int>(1, 2, 3, 7, 8, 9, 17)}, {1, rc::gen::element<int>(1024, 2048)}});
        int nout = *rc::gen::weightedOneOf<int>({{6, rng<int>(1, 9)}, {1, rc::gen::element<int>(500, 630)}});
        // keep the key below 2^23 words
        while ((int64_t)nin * t * (1 << bb) * (nout + 4) > (1 << 23)) { if (nin > 17) nin = 17; else if (nout > 9) nout = 9; else if (t > 1) t--; else bb--; }
        bool real = *rng<int>(0, 3) == 0 && t * bb <= 30;
        c.set("k", real ? "real" : "nf").set("t", t).set("basebit", bb).set("nin", nin).set("nout", nout);
        c.set("keyseed", *genSeed()).set("keykind", *rc::gen::weightedElement<int>({{3, 0}, {1, 1}})).set("maskseed", *genSeed());
        c.set("maskkind", *rng<int>(0, 2)).set("samples", *rng<int>(1, 12)).set("tail", *rng<int>(0, 1)).set("alog", *rng<int>(10, 28));
        int w = 32 - t * bb;
        uint32_t off = (uint32_t)1 << (w - 1);
        std::vector<int64_t> a0;
        int cnt = *rng<int>(0, 2);
        for (int i = 0; i < cnt; i++) {
            int j = *rng<int>(0, t - 1);
            uint32_t kq = (uint32_t)((uint64_t)*rc::gen::arbitrary<uint32_t>() << (32 - (j + 1) * bb));
            int d = *rng<int>(-2, 2);
            a0.push_back((int64_t)(uint32_t)*rc::gen::element<uint32_t>(kq - off + d, kq + d, (uint32_t)0 - off + d, (uint32_t)d, 0xffffffffu));
        }
        c.set("a0", J::arr(a0));
        return c;
    });
    return H.finish();
}
