// Custom bootstrapping key sets (arbitrary n, k, gadget and key-switch layouts, noise levels)
// built through the public API; shared by C04, C09, C15, C16.
#pragma once
#include "gatelib.hpp"

namespace vf {

struct BCfg {
    int n = 8, k = 1, l = 3, Bgbit = 7, t = 8, bb = 2;
    double a_in = 1e-300, a_bk = 1e-300; // stdev of the key-switching rows (input key) and of the bootstrapping rows
    uint64_t seed = 1;
    bool operator<(const BCfg &o) const {
        return std::tie(n, k, l, Bgbit, t, bb, a_in, a_bk, seed) < std::tie(o.n, o.k, o.l, o.Bgbit, o.t, o.bb, o.a_in, o.a_bk, o.seed);
    }
    J json() const { J j = J::object(); j.set("n", n).set("k", k).set("l", l).set("Bgbit", Bgbit).set("t", t).set("basebit", bb).set("a_in", a_in).set("a_bk", a_bk).set("seed", seed); return j; }
    static BCfg from(const J &j) {
        BCfg c; c.n = (int)j["n"].i(); c.k = (int)j["k"].i(); c.l = (int)j["l"].i(); c.Bgbit = (int)j["Bgbit"].i(); c.t = (int)j["t"].i(); c.bb = (int)j["basebit"].i();
        c.a_in = j["a_in"].d(); c.a_bk = j["a_bk"].d(); c.seed = (uint64_t)j["seed"].i(); return c;
    }
};

struct BKey {
    BCfg cfg;
    static const int N = 1024;
    LweParams *Pin; TLweParams *Ptl; TGswParams *Pg;
    LweKey *key_in; TGswKey *key_g; LweKey *key_ex;
    LweBootstrappingKey *bk; LweBootstrappingKeyFFT *bkFFT;
    explicit BKey(const BCfg &c) : cfg(c) {
        Pin = new_LweParams(c.n, c.a_in, 1. / 16);
        Ptl = new_TLweParams(N, c.k, c.a_bk, 1. / 16);
        Pg = new_TGswParams(c.l, c.Bgbit, Ptl);
        seed_lib(c.seed, 0x626b6579u);
        key_in = new_LweKey(Pin); lweKeyGen(key_in);
        key_g = new_TGswKey(Pg); tGswKeyGen(key_g);
        bk = new_LweBootstrappingKey(c.t, c.bb, Pin, Pg);
        tfhe_createLweBootstrappingKey(bk, key_in, key_g);
        bkFFT = new_LweBootstrappingKeyFFT(bk);
        key_ex = new_LweKey(&Ptl->extracted_lweparams);
        tLweExtractKey(key_ex, &key_g->tlwe_key);
    }
    ~BKey() {
        delete_LweKey(key_ex); delete_LweBootstrappingKeyFFT(bkFFT); delete_LweBootstrappingKey(bk);
        delete_TGswKey(key_g); delete_LweKey(key_in); delete_TGswParams(Pg); delete_TLweParams(Ptl); delete_LweParams(Pin);
    }
    BKey(const BKey &) = delete;
};
inline std::map<BCfg, std::unique_ptr<BKey>> &bkcache() { static std::map<BCfg, std::unique_ptr<BKey>> m; return m; }
inline BKey &get_bkey(const BCfg &c, size_t maxcache = 3) {
    auto &m = bkcache();
    auto it = m.find(c);
    if (it != m.end()) return *it->second;
    while (m.size() >= maxcache) m.erase(m.begin());
    m[c].reset(new BKey(c));
    return *m[c];
}

// exact phase of an LWE sample of dimension n under an int key array
inline uint32_t xphase_n(const LweSample *s, const int32_t *key, int n) {
    uint32_t acc = 0;
    for (int i = 0; i < n; i++) acc += (uint32_t)s->a[i] * (uint32_t)key[i];
    return (uint32_t)s->b - acc;
}

} // namespace vf
