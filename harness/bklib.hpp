// Custom bootstrapping key sets (arbitrary n, k, gadget and key-switch layouts, noise levels)
// built through the public API; shared by C04, C09, C15, C16.
#pragma once
#include "gatelib.hpp"

namespace vf {

struct BCfg {
    int n = 8, k = 1, l = 3, Bgbit = 7, t = 8, bb = 2;
    double a_in = 1e-300, a_bk = 1e-300; // stdev of the key-switching rows (input key) and of the bootstrapping rows
    uint64_t seed = 1;
    bool operator<(const BCfg &o) const {
        return std::tie(n, k, l, Bgbit, t, bb, a_in, a_bk, seed) < std::tie(o.n, o.k, o.l, o.Bgbit, o.t, o.bb, o.a_in, o.a_bk, o.seed);
    }
    J json() const { J j = J::object(); j.set("n", n).set("k", k).set("l", l).set("Bgbit", Bgbit).set("t", t).set("basebit", bb).set("a_in", a_in).set("a_bk", a_bk).set("seed", seed); return j; }
    static BCfg from(const J &j) {
        BCfg c; c.n = (int)j["n"].i(); c.k = (int)j["k"].i(); c.l = (int)j["l"].i(); c.Bgbit = (int)j["Bgbit"].i(); c.t = (int)j["t"].i(); c.bb = (int)j["basebit"].i();
        c.a_in = j["a_in"].d(); c.a_bk = j["a_bk"].d(); c.seed = (uint64_t)j["seed"].i(); return c;
    }
};

struct BKey {
    BCfg cfg;
    static const int N = 1024;
    LweParams *Pin; TLweParams *Ptl; TGswParams *Pg;
    LweKey *key_in; TGswKey *key_g; LweKey *key_ex;
    LweBootstrappingKey *bk; LweBootstrappingKeyFFT *bkFFT;
    explicit BKey(const BCfg &c) : cfg(c) {
        Pin = new_LweParams(c.n, c.a_in, 1. / 16);
        Ptl = new_TLweParams(N, c.k, c.a_bk, 1. / 16);
        Pg = new_TGswParams(c.l, c.Bgbit, Ptl);
        seed_lib(c.seed, 0x626b6579u);
        key_in = new_LweKey(Pin); lweKeyGen(key_in);
        key_g = new_TGswKey(Pg); tGswKeyGen(key_g);
        bk = new_LweBootstrappingKey(c.t, c.bb, Pin, Pg);
        tfhe_createLweBootstrappingKey(bk, key_in, key_g);
        bkFFT = new_LweBootstrappingKeyFFT(bk);
        key_ex = new_LweKey(&Ptl->extracted_lweparams);
        tLweExtractKey(key_ex, &key_g->tlwe_key);
    }
    ~BKey() {
        delete_LweKey(key_ex); delete_LweBootstrappingKeyFFT(bkFFT); delete_LweBootstrappingKey(bk);
        delete_TGswKey(key_g); delete_LweKey(key_in); delete_TGswParams(Pg); delete_TLweParams(Ptl); delete_LweParams(Pin);
    }
    BKey(const BKey &) = delete;
};
inline std::map<BCfg, std::unique_ptr<BKey>> &bkcache() { static std::map<BCfg, std::unique_ptr<BKey>> m; return m; }
inline BKey &get_bkey(const BCfg &c, size_t maxcache = 3) {
    auto &m = bkcache();
    auto it = m.find(c);
    if (it != m.end()) return *it->second;
    while (m.size() >= maxcache) m.erase(m.begin());
    m[c].reset(new BKey(c));
    return *m[c];
}

// exact phase of an LWE sample of dimension n under an int key array
inline uint32_t xphase_n(const LweSample *s, const int32_t *key, int n) {
    uint32_t acc = 0;
    for (int i = 0; i < n; i++) acc += (uint32_t)s->a[i] * (uint32_t)key[i];
    return (uint32_t)s->b - acc;
}

// ---- byte-level snapshots (as 64-bit hashes) of every object an evaluation function takes as input
inline uint64_t hash_words(const void *p, size_t bytes, uint64_t h) {
    const unsigned char *c = (const unsigned char *)p;
    size_t i = 0;
    for (; i + 8 <= bytes; i += 8) { uint64_t w; memcpy(&w, c + i, 8); h = (h ^ w) * 0x9E3779B97F4A7C15ull; h ^= h >> 29; }
    for (; i < bytes; i++) { h = (h ^ c[i]) * 0x100000001b3ull; }
    return h;
}
inline uint64_t snap_lwe(const LweSample *s, int n, uint64_t h = 7) { h = hash_words(s->a, (size_t)n * 4, h); h = hash_words(&s->b, 4, h); return hash_words(&s->current_variance, 8, h); }
inline uint64_t snap_tlwe(const TLweSample *s, int N, int k, uint64_t h = 11) {
    for (int i = 0; i <= k; i++) h = hash_words(s->a[i].coefsT, (size_t)N * 4, h);
    return hash_words(&s->current_variance, 8, h);
}
inline uint64_t snap_tgsw(const TGswSample *g, const TGswParams *P, uint64_t h = 13) {
    for (int p = 0; p < P->kpl; p++) h = snap_tlwe(&g->all_sample[p], P->tlwe_params->N, P->tlwe_params->k, h);
    return h;
}
inline uint64_t snap_tgswfft(const TGswSampleFFT *g, const TGswParams *P, uint64_t h = 17) {
    // every back-end stores N/2 complex doubles behind LagrangeHalfCPolynomial::data
    const int N = P->tlwe_params->N, k = P->tlwe_params->k;
    for (int p = 0; p < P->kpl; p++) {
        for (int i = 0; i <= k; i++) { const void *d = *(void *const *)(&g->all_samples[p].a[i]); h = hash_words(d, (size_t)N * 8, h); }
        h = hash_words(&g->all_samples[p].current_variance, 8, h);
    }
    return h;
}
inline uint64_t snap_ks(const LweKeySwitchKey *ks, uint64_t h = 19) {
    const int nout = ks->out_params->n;
    int hdr[4] = {ks->n, ks->t, ks->basebit, ks->base};
    h = hash_words(hdr, sizeof hdr, h);
    for (int i = 0; i < ks->n * ks->t * ks->base; i++) h = snap_lwe(&ks->ks0_raw[i], nout, h);
    return h;
}
inline uint64_t snap_params(const LweParams *a, const TGswParams *g, uint64_t h = 23) {
    h = hash_words(&a->n, 4, h); h = hash_words(&a->alpha_min, 8, h); h = hash_words(&a->alpha_max, 8, h);
    int v[6] = {g->l, g->Bgbit, g->Bg, g->halfBg, (int)g->maskMod, g->kpl};
    h = hash_words(v, sizeof v, h); h = hash_words(&g->offset, 4, h); h = hash_words(g->h, (size_t)g->l * 4, h);
    const TLweParams *t = g->tlwe_params;
    h = hash_words(&t->N, 4, h); h = hash_words(&t->k, 4, h); h = hash_words(&t->alpha_min, 8, h); h = hash_words(&t->alpha_max, 8, h);
    return h;
}
inline uint64_t snap_bk(const LweBootstrappingKey *bk, uint64_t h = 29) {
    for (int i = 0; i < bk->in_out_params->n; i++) h = snap_tgsw(&bk->bk[i], bk->bk_params, h);
    h = snap_ks(bk->ks, h);
    return snap_params(bk->in_out_params, bk->bk_params, h);
}
inline uint64_t snap_bkfft(const LweBootstrappingKeyFFT *bk, uint64_t h = 31) {
    for (int i = 0; i < bk->in_out_params->n; i++) h = snap_tgswfft(&bk->bkFFT[i], bk->bk_params, h);
    h = snap_ks(bk->ks, h);
    return snap_params(bk->in_out_params, bk->bk_params, h);
}

} // namespace vf
