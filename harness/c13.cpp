// C13 — torus rounding and modulus switch round to nearest exactly.
// Engines: E2 exhaustive sweeps / boundary enumeration, E1 rapidcheck for random (M, phase).
#include "common.hpp"
#include <rapidcheck.h>
#include <tfhe.h>
using namespace vf;

static Report R;

// distance (in 2^-32/M units scaled by M) of M*phase to the nearest tie point (r+1/2)*2^32
static inline uint64_t tie_dist(uint32_t phase, uint32_t M) {
    // ties are at M*phase == 2^31 (mod 2^32)
    uint64_t x = ((uint64_t)M * phase) & 0xffffffffull;
    uint64_t d = x > 0x80000000ull ? x - 0x80000000ull : 0x80000000ull - x;
    return d; // in units of 1/M of a torus unit
}
static inline bool nontrivial_ms(uint32_t phase, uint32_t M) {
    // within 2 torus units of a tie, or within 2 units of the wrap point (top of the range)
    return tie_dist(phase, M) <= 2ull * M || phase >= 0xfffffffeu || phase <= 1u;
}

static std::string check_ms(uint32_t M, uint32_t phase) {
    int32_t r = modSwitchFromTorus32((int32_t)phase, (int32_t)M);
    char buf[256];
    int64_t rr = (M == 0x80000000u) ? (int64_t)(uint32_t)r : (int64_t)r;
    if (!modswitch_ok(phase, M, rr)) {
        snprintf(buf, sizeof buf, "modSwitchFromTorus32(phase=%u, M=%u) = %lld, not the nearest integer in [0,M) (reference %lld)",
                 phase, M, (long long)rr, (long long)ref_modswitch(phase, M));
        return buf;
    }
    if (M != 0x80000000u) {
        int32_t ap = approxPhase((int32_t)phase, (int32_t)M);
        int32_t enc = modSwitchToTorus32(r, (int32_t)M);
        if (ap != enc) {
            snprintf(buf, sizeof buf, "approxPhase(phase=%u,M=%u)=%d differs from modSwitchToTorus32(%d,M)=%d", phase, M, ap, r, enc);
            return buf;
        }
    }
    return "";
}
static std::string check_enc(uint32_t M, uint32_t mu) {
    int32_t t = modSwitchToTorus32((int32_t)mu, (int32_t)M);
    int32_t back = modSwitchFromTorus32(t, (int32_t)M);
    char buf[256];
    // encoding must be the torus point mu/M up to truncation: 0 <= mu*2^32/M - t < 1 + tiny
    __int128 exact_num = ((__int128)mu << 32); // /M
    __int128 diff = exact_num - (__int128)(uint32_t)t * M; // = M*(mu*2^32/M - t)
    if (diff < 0 || diff > (__int128)2 * M) {
        snprintf(buf, sizeof buf, "modSwitchToTorus32(mu=%u,M=%u)=%u is not the encoding of mu/M", mu, M, (uint32_t)t);
        return buf;
    }
    if ((uint32_t)back != mu) {
        snprintf(buf, sizeof buf, "modSwitchFromTorus32(modSwitchToTorus32(mu=%u,M=%u))=%d", mu, M, back);
        return buf;
    }
    return "";
}
static std::string check_conv(uint32_t x) {
    double d = t32tod((int32_t)x);
    int32_t b = dtot32(d);
    char buf[200];
    if (d != (double)(int32_t)x / 4294967296.0) { snprintf(buf, sizeof buf, "t32tod(%d)=%.17g is not x/2^32", (int32_t)x, d); return buf; }
    if ((uint32_t)b != x) { snprintf(buf, sizeof buf, "dtot32(t32tod(%d))=%d", (int32_t)x, b); return buf; }
    return "";
}
static std::string check_per(uint32_t x, int64_t k) {
    double d = (double)(int32_t)x / 4294967296.0;
    int32_t a = dtot32(d), b = dtot32(d + (double)k);
    char buf[200];
    if (a != b || (uint32_t)a != x) { snprintf(buf, sizeof buf, "dtot32(%.17g + %lld)=%d but dtot32(%.17g)=%d (x=%d)", d, (long long)k, b, d, a, (int32_t)x); return buf; }
    return "";
}

static J mk(const char *k, uint64_t a, uint64_t b) {
    J c = J::object();
    c.set("k", k);
    if (!strcmp(k, "ms")) { c.set("M", a).set("phase", b); }
    else if (!strcmp(k, "enc")) { c.set("M", a).set("mu", b); }
    else if (!strcmp(k, "conv")) { c.set("x", a); }
    else { c.set("x", a).set("kk", (int64_t)b); }
    return c;
}
static std::string run_case(const J &c) {
    const std::string &k = c["k"].s();
    if (k == "ms") return check_ms((uint32_t)c["M"].i(), (uint32_t)c["phase"].i());
    if (k == "enc") return check_enc((uint32_t)c["M"].i(), (uint32_t)c["mu"].i());
    if (k == "conv") return check_conv((uint32_t)c["x"].i());
    if (k == "per") return check_per((uint32_t)c["x"].i(), c["kk"].i());
    return "unknown case kind";
}
static void one(const char *k, uint64_t a, uint64_t b, bool nontriv, bool sample = false) {
    std::string why;
    if (k[0] == 'm') why = check_ms((uint32_t)a, (uint32_t)b);
    else if (k[0] == 'e') why = check_enc((uint32_t)a, (uint32_t)b);
    else if (k[0] == 'c') why = check_conv((uint32_t)a);
    else why = check_per((uint32_t)a, (int64_t)b);
    R.evaluations++;
    if (nontriv) R.exhaustive_nontrivial++;
    if (sample) R.note_sample(mk(k, a, b));
    if (!why.empty()) R.fail(mk(k, a, b), why, std::string("c13/") + k);
}

int main(int argc, char **argv) {
    Args A(argc, argv);
    std::string out = A.s("out", "c13.json"), mode = A.s("mode", "rc");
    install_crash_handler(out + ".crash");
    if (mode == "replay") {
        J f = J::parse_file(A.s("replay"));
        J c = f["case"];
        set_current(c);
        std::string why = run_case(c);
        R.evaluations = 1;
        if (!why.empty()) { R.fail(c, why, "c13/" + c["k"].s()); printf("FAIL %s\n", why.c_str()); }
        R.write(out);
        return why.empty() ? 0 : 1;
    }
    if (mode == "sweep") { // all phases in [lo,hi) for one M
        uint32_t M = (uint32_t)A.u("M", 2048);
        uint64_t lo = A.u("lo", 0), hi = A.u("hi", 1ull << 32);
        J cur = J::object(); cur.set("mode", "sweep").set("M", M).set("lo", lo).set("hi", hi); set_current(cur);
        for (uint64_t p = lo; p < hi; p++) {
            bool nt = nontrivial_ms((uint32_t)p, M);
            one("ms", M, p, nt, (p - lo) % ((hi - lo) / 4 + 1) == 0);
            if (R.failure_count > 50) break;
        }
        R.cls("sweep_M_" + std::to_string(M), hi - lo);
    } else if (mode == "boundary") { // every M in [Mlo,Mhi]: all tie points +-2, wrap, extremes; all mu
        uint32_t Mlo = (uint32_t)A.u("Mlo", 2), Mhi = (uint32_t)A.u("Mhi", 32768);
        for (uint64_t M = Mlo; M <= Mhi; M++) {
            J cur = J::object(); cur.set("mode", "boundary").set("M", M); set_current(cur);
            for (uint64_t r = 0; r < M; r++) {
                // tie between r and r+1: phase*M = (r+1/2)*2^32
                uint64_t tie = (((2 * r + 1) << 31)) / M; // floor
                for (int64_t d = -2; d <= 3; d++) one("ms", M, (uint32_t)(tie + d), true, r == M / 2 && d == 0);
                // grid point r*2^32/M +- 1
                uint64_t g = (r << 32) / M;
                for (int64_t d = -1; d <= 1; d++) one("ms", M, (uint32_t)(g + d), nontrivial_ms((uint32_t)(g + d), (uint32_t)M));
                one("enc", M, r, true);
            }
            for (uint32_t p : {0u, 1u, 0x7fffffffu, 0x80000000u, 0x80000001u, 0xfffffffeu, 0xffffffffu}) one("ms", M, p, true);
            R.cls("boundary_M");
            if (R.failure_count > 50) break;
        }
    } else if (mode == "pow2") { // powers of two up to 2^31: boundary sets + sampled mu
        SplitMix rng(A.u("seed", 1));
        for (int e = 1; e <= 30; e++) { // 2^31 is not representable in the int32_t Msize parameter
            uint64_t M = 1ull << e;
            uint64_t step = (1ull << 32) >> e; // distance between grid points
            uint64_t cnt = M <= 65536 ? M : 65536;
            for (uint64_t q = 0; q < cnt; q++) {
                uint64_t r = M <= 65536 ? q : (q < 16 ? q : (q < 32 ? M - 1 - (q - 16) : rng.next() % M));
                uint64_t tie = r * step + step / 2;
                for (int64_t d = -2; d <= 2; d++) one("ms", M, (uint32_t)(tie + d), true, q == 7 && d == 0);
                if (M != 0x80000000ull) one("enc", M, r, true);
            }
            for (uint32_t p : {0u, 1u, 0x7fffffffu, 0x80000000u, 0x80000001u, 0xfffffffeu, 0xffffffffu}) one("ms", M, p, true);
            R.cls("pow2_M");
        }
    } else if (mode == "conv") { // dtot32(t32tod(x)) == x for all x in [lo,hi); periodicity on a stride
        uint64_t lo = A.u("lo", 0), hi = A.u("hi", 1ull << 32);
        SplitMix rng(A.u("seed", 1) ^ lo);
        J cur = J::object(); cur.set("mode", "conv").set("lo", lo).set("hi", hi); set_current(cur);
        for (uint64_t x = lo; x < hi; x++) {
            bool nt = ((uint32_t)x + 2u) <= 4u || (((uint32_t)x ^ 0x80000000u) + 2u) <= 4u || (x & 0xffff) == 0;
            one("conv", x, 0, nt, (x - lo) % ((hi - lo) / 3 + 1) == 0);
            if ((x & 0x3f) == 0) {
                int64_t k = rng.range(-(1 << 20), 1 << 20);
                one("per", x, (uint64_t)k, k != 0, (x - lo) % ((hi - lo) / 3 + 1) == 0);
            }
            if (R.failure_count > 50) break;
        }
        for (int64_t k : {-(1ll << 20), -1ll, 1ll, (1ll << 20)})
            for (uint32_t x : {0u, 1u, 0xffffffffu, 0x7fffffffu, 0x80000000u}) one("per", x, (uint64_t)k, true);
    } else { // rapidcheck: random M (any integer in [2,2^15] or power of two <= 2^31) x phases near ties / random
        auto genM = rc::gen::oneOf(
            rc::gen::resize(100, rc::gen::inRange<uint32_t>(2, 32769)),
            rc::gen::map(rc::gen::resize(100, rc::gen::inRange<int>(1, 31)), [](int e) { return (uint32_t)1 << e; }),
            rc::gen::element<uint32_t>(2, 3, 4, 5, 7, 8, 16, 1000, 1024, 2048, 4096, 32768));
        bool ok = rc::check("C13 modulus switch rounds to nearest; encode/decode round trip", [&]() {
            uint32_t M = *genM;
            int kind = *rc::gen::resize(100, rc::gen::inRange(0, 6));
            J c;
            if (kind <= 2) { // phase near a tie point
                uint64_t r = *rc::gen::resize(100, rc::gen::inRange<uint64_t>(0, M));
                int64_t d = *rc::gen::resize(100, rc::gen::inRange<int64_t>(-3, 4));
                uint64_t tie = (((2 * r + 1) << 31)) / M;
                c = mk("ms", M, (uint32_t)(tie + d));
            } else if (kind == 3) {
                c = mk("ms", M, *rc::gen::arbitrary<uint32_t>());
            } else if (kind == 4) {
                uint64_t mu = *rc::gen::resize(100, rc::gen::inRange<uint64_t>(0, M));
                if (M == 0x80000000u) c = mk("ms", M, (uint32_t)(mu << 1)); else c = mk("enc", M, mu);
            } else {
                uint32_t x = *rc::gen::arbitrary<uint32_t>();
                int64_t k = *rc::gen::resize(100, rc::gen::inRange<int64_t>(-(1 << 20), (1 << 20) + 1));
                c = mk("per", x, (uint64_t)k);
            }
            set_current(c);
            bool nt = c["k"].s() == "ms" ? nontrivial_ms((uint32_t)c["phase"].i(), M) : true;
            R.note(c, nt);
            R.cls("rc_" + c["k"].s());
            std::string why = run_case(c);
            if (!why.empty()) { R.fail(c, why, "c13/" + c["k"].s()); RC_FAIL(why); }
        });
        (void)ok;
    }
    R.write(out);
    return R.failure_count ? 1 : 0;
}
