// C01 — every homomorphic gate computes its Boolean function on every admissible input
// (fresh, chained, trivial, forged to the admissible noise limit), both parameter sets.
#include "hmain.hpp"
#include "gatelib.hpp"
using namespace vf;

static void make_fresh(LweSample *ct, int bit, KeySet &K) { bootsSymEncrypt(ct, bit, K.sk); }
static void make_chained(LweSample *ct, int bit, KeySet &K, uint64_t seed) {
    SplitMix r(seed);
    LweSample *u = new_gate_bootstrapping_ciphertext(K.params), *v = new_gate_bootstrapping_ciphertext(K.params), *w = new_gate_bootstrapping_ciphertext(K.params);
    for (;;) {
        int h = (int)(r.next() % 11); // any bootstrapped gate incl. MUX
        int x = (int)(r.next() & 1), y = (int)(r.next() & 1), z = (int)(r.next() & 1);
        if (gate_truth(h, x, y, z) != bit) continue;
        bootsSymEncrypt(u, x, K.sk); bootsSymEncrypt(v, y, K.sk); bootsSymEncrypt(w, z, K.sk);
        gate_apply(h, ct, u, v, w, 0, K.ck);
        break;
    }
    delete_gate_bootstrapping_ciphertext(u); delete_gate_bootstrapping_ciphertext(v); delete_gate_bootstrapping_ciphertext(w);
}
// adversarial error for input idx (0=a,1=b,2=c) of gate g on the given bits: toward (dir=0) or away from (dir=1) the decision boundary at 0
static int32_t adversarial(int g, int idx, const int *bits, int dir) {
    int gg = g, sa, sb, A, B;
    if (g == G_MUX) { // a,b judged in AND(a,b); c in ANDNY(a,c)
        if (idx < 2) { gg = G_AND; A = bits[0]; B = bits[1]; } else { gg = G_ANDNY; A = bits[0]; B = bits[2]; idx = 1; }
    } else if (GATES[g].arity == 2) { A = bits[0]; B = bits[1]; }
    else return dir ? (1 << 27) : -(1 << 27);
    sa = GATES[gg].sa; sb = GATES[gg].sb;
    int v = GATES[gg].cst8 + GATES[gg].scale * (sa * (A ? 1 : -1) + sb * (B ? 1 : -1)); // nominal value in 1/8
    int sgnv = v > 0 ? 1 : -1;
    int sx = idx == 0 ? sa : sb;
    int s = (dir == 0 ? -sgnv : sgnv) * sx;
    return s * (1 << 27);
}

static std::string run_case(const J &c, std::string &sig) {
    const int g = (int)c["g"].i();
    sig = std::string("c01/") + GATES[g].name;
    KeySet &K = get_keyset((int)c["lambda"].i(), (uint64_t)c["keyseed"].i());
    const LweKey *sk = K.sk->lwe_key;
    const int n = K.n, N2 = 2 * K.params->tgsw_params->tlwe_params->N;
    seed_lib((uint64_t)c["seed"].i());
    int bits[3] = {(int)c["bits"][0].i() & 1, (int)c["bits"][1].i() & 1, (int)c["bits"][2].i() & 1};
    LweSample *in = new_gate_bootstrapping_ciphertext_array(3, K.params), *out = new_gate_bootstrapping_ciphertext(K.params);
    const int ar = GATES[g].arity;
    char buf[400];
    std::string why;
    for (int i = 0; i < ar && g != G_CONSTANT; i++) {
        int prov = (int)c["prov"][i].i(), ek = (int)c["ekind"][i].i();
        uint64_t es = (uint64_t)c["eseed"].i() + 977 * i;
        if (prov == 0 || prov == 3) make_fresh(in + i, bits[i], K);
        else if (prov == 1 || prov == 4) make_chained(in + i, bits[i], K, es);
        else bootsCONSTANT(in + i, bits[i], K.ck);
        if (prov >= 3) {
            int32_t e = ek == 8 ? adversarial(g, i, bits, 0) : ek == 9 ? adversarial(g, i, bits, 1) : forge_error(ek, es);
            uint32_t target = (bits[i] ? MU8 : (uint32_t)0 - MU8) + (uint32_t)e;
            forge_phase(in + i, target, sk);
        }
        // admissibility self-check: |phase - (+-1/8)| <= 1/32
        double pe = phase_err_of_bit(xphase(in + i, sk), bits[i]);
        if (std::fabs(pe) > 1.0 / 32 + 1e-12) {
            if (prov >= 3) return "harness self-check: forged input not admissible";
            // a fresh/chained input outside the admissible band is the library's fault (noise too large): report it
            snprintf(buf, sizeof buf, "input %d (provenance %d) has phase error %.5f, beyond 1/32", i, prov, pe);
            why = buf;
        }
    }
    // keep copies for the exact relations of the linear gates
    std::vector<uint32_t> a0(n); uint32_t b0 = (uint32_t)in[0].b;
    for (int i = 0; i < n; i++) a0[i] = (uint32_t)in[0].a[i];
    gate_apply(g, out, in, in + 1, in + 2, bits[0], K.ck);
    const int want = gate_truth(g, bits[0], bits[1], bits[2]);
    const int got = bootsSymDecrypt(out, K.sk);
    uint32_t ph = xphase(out, sk);
    double perr = phase_err_of_bit(ph, want);
    if (why.empty() && got != want) {
        snprintf(buf, sizeof buf, "%s(%d,%d,%d) decrypts to %d, truth table says %d (lambda=%d, output phase %.5f)", GATES[g].name, bits[0], bits[1], bits[2], got, want, K.lambda, (double)(int32_t)ph / 4294967296.0);
        why = buf;
    }
    if (why.empty() && gate_bootstrapped(g) && std::fabs(perr) >= 3.0 / 64) {
        snprintf(buf, sizeof buf, "%s(%d,%d,%d): output phase error %.5f is not below 3/64", GATES[g].name, bits[0], bits[1], bits[2], perr);
        why = buf;
    }
    if (why.empty() && GATES[g].arity == 2) { // output sign must follow the rounded phase of the actual combination
        std::vector<uint32_t> ca; uint32_t cb;
        gate_combination(g, in, in + 1, n, ca, cb);
        int p = predict_p(ca, cb, sk, N2);
        int wantsign = p < N2 / 2 ? 1 : 0;
        if (got != wantsign) { snprintf(buf, sizeof buf, "%s: rounded phase of the internal combination is p=%d (of 2N=%d) so the output must be %d, got %d", GATES[g].name, p, N2, wantsign, got); why = buf; }
    }
    if (why.empty() && g == G_NOT) {
        if (ph != (uint32_t)0 - (b0 - [&]() { uint32_t acc = 0; for (int i = 0; i < n; i++) acc += a0[i] * (uint32_t)sk->key[i]; return acc; }())) why = "NOT: phase is not exactly the negated input phase";
        for (int i = 0; i < n && why.empty(); i++) if ((uint32_t)out->a[i] != (uint32_t)0 - a0[i]) why = "NOT: mask is not the negated input mask";
    }
    if (why.empty() && g == G_COPY) {
        if ((uint32_t)out->b != b0) why = "COPY: b differs";
        for (int i = 0; i < n && why.empty(); i++) if ((uint32_t)out->a[i] != a0[i]) why = "COPY: mask differs";
    }
    if (why.empty() && g == G_CONSTANT) {
        if ((uint32_t)out->b != (bits[0] ? MU8 : (uint32_t)0 - MU8)) why = "CONSTANT: b is not +-1/8";
        for (int i = 0; i < n && why.empty(); i++) if (out->a[i] != 0) why = "CONSTANT: mask is not zero";
    }
    delete_gate_bootstrapping_ciphertext_array(3, in); delete_gate_bootstrapping_ciphertext(out);
    return why;
}

static J mkcase(int lambda, uint64_t keyseed, int g, int b0, int b1, int b2, int p0, int p1, int p2, int e0, int e1, int e2, uint64_t eseed, uint64_t seed) {
    J c = J::object();
    c.set("lambda", lambda).set("keyseed", keyseed).set("g", g).set("gate", GATES[g].name);
    c.set("bits", J::arr(std::vector<int>{b0, b1, b2})).set("prov", J::arr(std::vector<int>{p0, p1, p2})).set("ekind", J::arr(std::vector<int>{e0, e1, e2}));
    c.set("eseed", eseed).set("seed", seed);
    return c;
}

int main(int argc, char **argv) {
    Args A(argc, argv);
    Harness H(A, "c01");
    H.run_case = run_case;
    H.nontrivial = [](const J &c) {
        int g = (int)c["g"].i();
        if (!gate_bootstrapped(g)) return false;
        for (int i = 0; i < GATES[g].arity; i++) {
            int p = (int)c["prov"][i].i(), e = (int)c["ekind"][i].i();
            if (p == 1 || p == 4) return true;
            if (p == 3 && e != 6 && e != 7) return true; // forged with |e| >= 1/64
        }
        return false;
    };
    H.classify = [](const J &c) {
        int g = (int)c["g"].i();
        std::string cls = "fresh";
        for (int i = 0; i < GATES[g].arity; i++) { int p = (int)c["prov"][i].i(), e = (int)c["ekind"][i].i(); if (p >= 3 && (e <= 3 || e >= 8)) cls = "forgedmax"; else if ((p == 1 || p == 4) && cls != "forgedmax") cls = "chained"; }
        return std::string(GATES[g].name) + "_" + std::to_string(c["bits"][0].i()) + std::to_string(GATES[g].arity > 1 ? c["bits"][1].i() : 0) + std::to_string(GATES[g].arity > 2 ? c["bits"][2].i() : 0) + "_" + cls;
    };
    if (H.mode == "replay") return H.replay(A.s("replay"));
    const int nkeys = (int)A.i("keys", 2);
    const uint64_t kbase = A.u("keybase", 1);
    if (H.mode == "table") { // every gate x every truth-table row x {fresh, chained, forged-max toward 0, forged-max away, forged +-(1/32-1)} once
        uint64_t seed = A.u("seed", 1);
        std::vector<int> lambdas;
        if (A.i("lambda", 0)) lambdas.push_back((int)A.i("lambda")); else { lambdas.push_back(128); lambdas.push_back(80); }
        int reps = (int)A.i("reps", 1);
        for (int rep = 0; rep < reps; rep++)
        for (int lambda : lambdas)
            for (int g = (int)A.i("gfrom", 0); g <= (int)A.i("gto", G_COUNT - 1); g++) {
                int rows = 1 << GATES[g].arity;
                for (int row = 0; row < rows; row++)
                    for (int variant = 0; variant < (A.i("full", 1) ? 6 : 3); variant++) {
                        int b0 = row & 1, b1 = (row >> 1) & 1, b2 = (row >> 2) & 1;
                        int p = 0, e = 6;
                        switch (variant) { case 0: p = 0; break; case 1: p = 3; e = 8; break; case 2: p = 1; break; case 3: p = 3; e = 9; break; case 4: p = 4; e = 8; break; default: p = 3; e = 2 + (row & 1); }
                        uint64_t s = mix64(seed + rep, (uint64_t)g * 64 + row * 8 + variant + lambda);
                        H.exec(mkcase(lambda, kbase + (rep % nkeys), g, b0, b1, b2, p, p, p, e, e, e, s, s ^ 0x1234));
                        if (H.R.failure_count > 20) return H.finish();
                    }
            }
        return H.finish();
    }
    const int first_lambda = (int)A.i("first_lambda", 0);
    int drawn = 0;
    H.rc_loop("C01 every gate computes its truth table on every admissible input", [&]() {
        int lambda = *rc::gen::element<int>(128, 80);
        // the first cases of a job all use one parameter set, so that across jobs every gate is first called under either set (order of first use is part of the history)
        if (first_lambda && drawn++ < 60) lambda = first_lambda;
        int g = *rc::gen::weightedOneOf<int>({{12, rng<int>(0, 10)}, {1, rng<int>(11, 13)}});
        auto prov = rc::gen::weightedElement<int>({{3, 0}, {2, 1}, {1, 2}, {5, 3}, {2, 4}});
        auto ek = rc::gen::weightedElement<int>({{2, 0}, {2, 1}, {1, 2}, {1, 3}, {1, 4}, {1, 5}, {1, 6}, {2, 7}, {4, 8}, {2, 9}});
        return mkcase(lambda, kbase + (uint64_t)*rng<int>(0, nkeys - 1), g, *rng<int>(0, 1), *rng<int>(0, 1), *rng<int>(0, 1), *prov, *prov, *prov, *ek, *ek, *ek, *genSeed(), *genSeed());
    });
    return H.finish();
}
