// C17 — the exported cloud key contains only public evaluation material: exact size, strict prefix of
// the secret export, no secret key material in any encoding (also after other exports in the same process).
#include "hmain.hpp"
#include "iolib.hpp"
#include <thread>
using namespace vf;

static std::string bytes_of(const void *p, size_t n) { return std::string((const char *)p, n); }
static bool contains(const std::string &hay, const std::string &needle) { return !needle.empty() && memmem(hay.data(), hay.size(), needle.data(), needle.size()) != nullptr; }

// rolling-hash search: does any of the windows (all of length W) occur anywhere in hay?
static long find_any_window(const std::string &hay, const std::vector<std::string> &wins, size_t W) {
    if (wins.empty() || hay.size() < W) return -1;
    const uint64_t B = 0x100000001b3ull;
    uint64_t Bw = 1;
    for (size_t i = 0; i + 1 < W; i++) Bw *= B;
    auto H = [&](const unsigned char *p) { uint64_t h = 0; for (size_t i = 0; i < W; i++) h = h * B + p[i]; return h; };
    std::unordered_set<uint64_t> set;
    for (auto &w : wins) set.insert(H((const unsigned char *)w.data()));
    const unsigned char *h = (const unsigned char *)hay.data();
    uint64_t cur = H(h);
    for (size_t i = 0;; i++) {
        if (set.count(cur)) for (auto &w : wins) if (!memcmp(h + i, w.data(), W)) return (long)i;
        if (i + W >= hay.size()) break;
        cur = (cur - h[i] * Bw) * B + h[i + W];
    }
    return -1;
}
// informative windows of an int32 key array: `len` consecutive entries containing at least len/4 ones and len/4 zeros
static void key_windows(const int32_t *key, int n, int len, std::vector<std::string> &out) {
    for (int s = 0; s + len <= n; s++) {
        int ones = 0;
        for (int i = 0; i < len; i++) ones += key[s + i] != 0;
        if (ones >= len / 4 && len - ones >= len / 4) out.push_back(bytes_of(key + s, (size_t)len * 4));
    }
}
static void packed_encodings(const int32_t *key, int n, std::vector<std::string> &out) {
    if (n < 128) return; // the packed key must be >= 16 bytes so that a chance match is impossible
    std::string asbytes, asbits((size_t)(n + 7) / 8, 0), msb((size_t)(n + 7) / 8, 0), ascii, sep1, sep2, sep3;
    for (int i = 0; i < n; i++) {
        asbytes.push_back((char)key[i]);
        if (key[i]) { asbits[i / 8] |= (char)(1 << (i % 8)); msb[i / 8] |= (char)(0x80 >> (i % 8)); }
        ascii.push_back(key[i] ? '1' : '0');
        sep1 += key[i] ? "1 " : "0 "; sep2 += key[i] ? "1," : "0,"; sep3 += key[i] ? "1\n" : "0\n";
    }
    asbits.resize(n / 8); msb.resize(n / 8);
    for (auto *s : {&asbytes, &asbits, &msb, &ascii, &sep1, &sep2, &sep3}) out.push_back(*s);
}

static J keydesc(const J &c, int type, uint64_t seed) {
    J d = J::object();
    d.set("type", type).set("n", c["n"].i()).set("N", 1024).set("k", c["kk"].i()).set("l", c["l"].i()).set("Bgbit", c["Bgbit"].i()).set("t", c["t"].i()).set("bb", c["bb"].i()).set("nout", 1);
    d.set("amin", c["amin"].d()).set("amax", 0.012467).set("amin2", c["amin2"].d()).set("amax2", 0.012467).set("ckind", 0).set("seed", seed);
    return d;
}

static std::string run_case(const J &c, std::string &sig) {
    sig = "c17/content";
    IoObj *ko = io_build(keydesc(c, T_SECRET, (uint64_t)c["seed"].i()));
    IoObj *other = c["history"].size() ? io_build(keydesc(c, T_SECRET, (uint64_t)c["seed"].i() + 4242)) : nullptr;
    const TFheGateBootstrappingSecretKeySet *sk = (const TFheGateBootstrappingSecretKeySet *)ko->p;
    IoObj cl = *ko; cl.type = T_CLOUD; // exports &sk->cloud
    const int n = (int)c["n"].i(), k = (int)c["kk"].i(), l = (int)c["l"].i(), t = (int)c["t"].i(), bb = (int)c["bb"].i(), N = 1024, kpl = (k + 1) * l;
    const bool file = c["file"].i() != 0;
    // history: exports performed earlier in the same process (other objects, other transports, another key set)
    for (auto &h : c["history"].av) {
        IoObj tmp = *(h[2].i() ? other : ko);
        tmp.type = h[0].i() ? T_SECRET : T_CLOUD;
        (void)io_export_bytes(&tmp, h[1].i() != 0);
    }
    std::string cloud = io_export_bytes(&cl, file);
    std::string secret = io_export_bytes(ko, file);
    std::string why;
    char buf[400];
    // 0. the export is a function of the (const) key set only: several threads exporting the cloud key and the secret key at the same time,
    //    on either transport, each obtain exactly the bytes of the single-threaded export (a server hands the cloud key to many clients)
    if (int T = (int)c["threads"].i()) {
        std::vector<int> bad(T, 0);
        std::vector<std::thread> th;
        const int rounds = n >= 128 ? 2 : 12;
        for (int t = 0; t < T; t++) th.emplace_back([&, t]() {
            for (int q = 0; q < rounds && !bad[t]; q++) {
                bool f = ((t + q) & 1) != 0;
                if (t % 3 == 2) { if (io_export_bytes(ko, f) != secret) bad[t] = 2; }
                else if (io_export_bytes(&cl, f) != cloud) bad[t] = 1;
            }
        });
        for (auto &x : th) x.join();
        for (int t = 0; t < T && why.empty(); t++) if (bad[t]) { snprintf(buf, sizeof buf, "%s key set exported by thread %d of %d while other threads export too differs from the single-threaded export", bad[t] == 2 ? "secret" : "cloud", t, T); why = buf; sig = "c17/concurrent-export"; }
    }
    // 1. size determined by the parameters; text section lengths obtained through the API itself
    IoObj gbp; gbp.type = T_GBPARAMS; gbp.p = (void *)sk->params;
    IoObj lwp; lwp.type = T_LWEPARAMS; lwp.p = (void *)sk->params->in_out_params;
    IoObj kso; kso.type = T_KSKEY; kso.p = (void *)sk->cloud.bk->ks;
    const size_t ks_bin = 12 + (size_t)k * N * t * (1u << bb) * (n + 1) * 4, bk_bin = 12 + (size_t)n * kpl * (k + 1) * N * 4;
    const size_t ks_text = io_export_bytes(&kso, false).size() - io_export_bytes(&lwp, false).size() - ks_bin;
    const size_t want = io_export_bytes(&gbp, false).size() + ks_text + ks_bin + bk_bin;
    if (cloud.size() != want) { snprintf(buf, sizeof buf, "cloud key export has %zu bytes, the parameters determine %zu (params %zu + key-switch text %zu + key-switch rows %zu + bootstrapping rows %zu)", cloud.size(), want, io_export_bytes(&gbp, false).size(), ks_text, ks_bin, bk_bin); why = buf; sig = "c17/size"; }
    // 2. strict prefix of the secret export; remainder = LWE key section + ring key section
    if (why.empty() && (secret.size() <= cloud.size() || memcmp(secret.data(), cloud.data(), cloud.size()))) { why = "cloud key export is not a strict prefix of the secret key set export"; sig = "c17/prefix"; }
    if (why.empty() && secret.size() - cloud.size() != (size_t)(4 + 4 * n) + (size_t)(4 + 4 * k * N)) { snprintf(buf, sizeof buf, "secret export exceeds the cloud export by %zu bytes, expected %d", secret.size() - cloud.size(), 4 + 4 * n + 4 + 4 * k * N); why = buf; sig = "c17/prefix"; }
    // 3. no secret key material, in any encoding
    if (why.empty()) {
        const int32_t *lk = sk->lwe_key->key;
        if (n >= 16 && contains(cloud, bytes_of(lk, (size_t)n * 4))) { why = "cloud export contains the LWE secret key as an int32 array"; sig = "c17/leak"; }
        std::vector<std::string> w32, w16, packed;
        key_windows(lk, n, 32, w32); if (n < 64) key_windows(lk, n, 16, w16);
        packed_encodings(lk, n, packed);
        for (int i = 0; i < k && why.empty(); i++) {
            const int32_t *rk = sk->tgsw_key->key[i].coefs;
            if (contains(cloud, bytes_of(rk, (size_t)N * 4))) { why = "cloud export contains a ring secret key polynomial as an int32 array"; sig = "c17/leak"; }
            key_windows(rk, N, 32, w32);
            packed_encodings(rk, N, packed);
        }
        long at;
        if (why.empty() && (at = find_any_window(cloud, w32, 128)) >= 0) { snprintf(buf, sizeof buf, "cloud export contains a 32-entry window of a secret key at byte offset %ld", at); why = buf; sig = "c17/leak"; }
        if (why.empty() && (at = find_any_window(cloud, w16, 64)) >= 0) { snprintf(buf, sizeof buf, "cloud export contains a 16-entry window of the LWE secret key at byte offset %ld", at); why = buf; sig = "c17/leak"; }
        for (auto &p : packed) if (why.empty() && contains(cloud, p)) { why = "cloud export contains a secret key in a packed encoding (bytes / bits / ASCII digits)"; sig = "c17/leak"; }
        for (int32_t tag : {43, 85, 169}) { (void)tag; }
    }
    // 4. no key-dependent value in clear in the library's own encoding: every zero-mask row of the key-switching key must carry b = 0
    if (why.empty()) {
        const LweKeySwitchKey *ks = sk->cloud.bk->ks;
        const int cnt = ks->n * ks->t * ks->base;
        for (int q = 0; q < cnt && why.empty(); q++) {
            const LweSample &row = ks->ks0_raw[q];
            bool zero = true;
            for (int i = 0; i < n && zero; i++) zero = row.a[i] == 0;
            if (zero && row.b != 0) { snprintf(buf, sizeof buf, "key-switching row %d (digit %d) has a zero mask and b = %d: a key-dependent value is exported in clear", q, q % ks->base, row.b); why = buf; sig = "c17/leak-ks-row"; }
        }
        const LweBootstrappingKey *bk = sk->cloud.bk;
        for (int i = 0; i < n && why.empty(); i++) for (int p = 0; p < kpl && why.empty(); p++) {
            const TLweSample &row = bk->bk[i].all_sample[p];
            bool zero = true;
            for (int j = 0; j < k && zero; j++) for (int x = 0; x < N && zero; x++) zero = row.a[j].coefsT[x] == 0;
            if (zero) { snprintf(buf, sizeof buf, "bootstrapping row (%d,%d) has a zero mask: its message (a key bit) is exported in clear", i, p); why = buf; sig = "c17/leak-bk-row"; }
        }
    }
    // 5. importing needs and produces no secret material: the importer consumes exactly the stream; re-export gives the same bytes
    if (why.empty() && c["import"].i()) {
        std::istringstream S(cloud);
        FILE *F = file ? fmemopen((void *)cloud.data(), cloud.size(), "rb") : nullptr;
        IoObj *im = io_import_any(T_CLOUD, nullptr, F, file ? nullptr : &S);
        long at = file ? ftell(F) : (long)S.tellg();
        if ((size_t)at != cloud.size()) { snprintf(buf, sizeof buf, "cloud key importer stopped at offset %ld of %zu", at, cloud.size()); why = buf; }
        if (why.empty() && io_export_bytes(im, !file) != cloud) why = "re-export of the imported cloud key differs from the original export";
        if (F) fclose(F);
        io_free_imported(im);
    }
    if (other) io_free(other);
    io_free(ko);
    return why;
}

int main(int argc, char **argv) {
    Args A(argc, argv);
    Harness H(A, "c17");
    H.run_case = run_case;
    H.nontrivial = [](const J &c) { return c["n"].i() >= 16; };
    H.classify = [](const J &c) { return std::string(c["file"].i() ? "FILE" : "stream") + "_hist" + std::to_string(c["history"].size()) + (c["n"].i() >= 128 ? "_big" : "") + (c["threads"].i() ? "_concurrentExports" : ""); };
    if (H.mode == "replay") return H.replay(A.s("replay"));
    auto mk = [&](int n, int k, int l, int Bgbit, int t, int bb, double amin, double amin2, uint64_t seed, int file, const J &hist, int import) {
        J c = J::object();
        c.set("n", n).set("kk", k).set("l", l).set("Bgbit", Bgbit).set("t", t).set("bb", bb).set("amin", amin).set("amin2", amin2).set("seed", seed).set("file", file).set("history", hist).set("import", import).set("threads", (int)(seed % 3 == 0 ? 2 + seed % 5 : 0));
        return c;
    };
    if (H.mode == "defaults") {
        uint64_t seed = A.u("seed", 1);
        for (int lambda : {128, 80}) for (int file = 0; file < 2; file++) {
            if (A.has("lambda") && A.i("lambda") != lambda) continue;
            J hist = J::array();
            if (file) hist.push(J::arr(std::vector<int>{1, 1, 0})); // secret set exported to a FILE first, as a key-generation program does
            bool l128 = lambda == 128;
            H.exec(mk(l128 ? 630 : 500, 1, l128 ? 3 : 2, l128 ? 7 : 10, 8, 2, l128 ? std::ldexp(1.0, -15) : 2.44e-5, l128 ? std::ldexp(1.0, -25) : 7.18e-9, seed + lambda + file, file, hist, file == 0));
        }
        return H.finish();
    }
    H.rc_loop("C17 the exported cloud key contains only public evaluation material", [&]() {
        int Bgbit = *rng<int>(2, 10);
        int bb = *rng<int>(1, 2);
        J hist = J::array();
        int hl = *rc::gen::weightedElement<int>({{2, 0}, {2, 1}, {2, 2}, {1, 3}});
        for (int i = 0; i < hl; i++) hist.push(J::arr(std::vector<int>{*rng<int>(0, 1), *rng<int>(0, 1), *rng<int>(0, 1)})); // (secret?, FILE?, other key set?)
        int n = *rc::gen::weightedOneOf<int>({{3, rng<int>(1, 16)}, {3, rng<int>(17, 64)}, {1, rng<int>(128, 200)}});
        return mk(n, *rc::gen::weightedElement<int>({{3, 1}, {1, 2}}), *rng<int>(1, std::min(3, 32 / Bgbit)), Bgbit, *rng<int>(1, 3), bb,
                  std::ldexp(1.0, -*rng<int>(10, 30)), *rng<int>(0, 7) == 0 ? 0.0 : std::ldexp(1.0, -*rng<int>(15, 30)), *genSeed(), *rng<int>(0, 1), hist, *rng<int>(0, 1));
    });
    return H.finish();
}
