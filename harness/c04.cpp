// C04 — bootstrapping maps the rounded input phase p through the test polynomial exactly:
// +mu for p in [0,N), -mu otherwise; blind-rotate-and-extract returns coefficient p of the
// anticyclic extension of v.  E2 (all 2N values of p, both rounding edges) + E1 rapidcheck.
#include "hmain.hpp"
#include "bklib.hpp"
using namespace vf;

static const int N = 1024, N2 = 2048;
static const char *FN[] = {"bootstrap_FFT", "bootstrap_woKS_FFT", "bootstrap", "bootstrap_woKS", "blindRotateAndExtract_FFT", "blindRotateAndExtract"};

static bool is_tie(uint32_t x) { return (x & 0x1fffffu) == 0x100000u; } // x = (k+1/2) * 2^21
static void fill_v(uint32_t *v, int kind, uint64_t seed) { // 0 random, 1 spike, 2 ramp, 3 constant-with-one-flip, 4 alternating +-1/8
    SplitMix r(seed);
    for (int i = 0; i < N; i++) v[i] = kind == 0 ? r.u32() : kind == 1 ? 0 : kind == 2 ? (uint32_t)i * 0x200000u : kind == 3 ? MU8 : ((i & 1) ? MU8 : (uint32_t)0 - MU8);
    if (kind == 1) v[seed % N] = 0x40000000u;
    if (kind == 3) v[seed % N] = (uint32_t)0 - MU8;
}

static std::string run_case(const J &c, std::string &sig) {
    const int f = (int)c["f"].i();
    sig = std::string("c04/") + FN[f];
    BCfg cfg = BCfg::from(c["cfg"]);
    BKey &K = get_bkey(cfg);
    const int n = cfg.n, k = cfg.k;
    const uint32_t mu = (uint32_t)c["mu"].i();
    SplitMix r((uint64_t)c["xseed"].i());
    LweSample *x = new_LweSample(K.Pin);
    const bool withKS = f == 0 || f == 2;
    LweSample *res = new_LweSample(withKS ? K.Pin : &K.Ptl->extracted_lweparams);
    char buf[400];
    std::string why;
    std::vector<int32_t> bara(n);
    int barb = 0;
    int p_up = 0, tb = 0, ta = 0; // admissible p in [p_up - tb, p_up + ta]
    const int xkind = (int)c["xkind"].i();
    if (f < 4) {
        if (xkind == 0) { // trivial sample: b at the centre of bucket p or at its lower rounding edge -1/0/+1
            int p = (int)(c["p"].i() % N2), edge = (int)c["edge"].i();
            for (int i = 0; i < n; i++) x->a[i] = 0;
            uint32_t b = (uint32_t)p << 21;
            if (edge) b = b - 0x100000u + (uint32_t)(edge - 2); // edge 1,2,3 -> tie-1, tie, tie+1
            x->b = (int32_t)b;
        } else if (xkind == 1) { // random mask, b adjusted so that the exact rounded phase equals the target p
            int p = (int)(c["p"].i() % N2);
            int64_t S = 0;
            for (int i = 0; i < n; i++) { uint32_t a = r.u32(); if (is_tie(a)) a++; x->a[i] = (int32_t)a; if (K.key_in->key[i]) S += round2N(a, N2); }
            int bb = (int)(((int64_t)p + S) % N2);
            int32_t delta = (int32_t)r.range(-0xfffff, 0xfffff);
            x->b = (int32_t)(((uint32_t)bb << 21) + (uint32_t)delta);
        } else { // fresh encryption of a chosen phase with the key set's input noise
            seed_lib((uint64_t)c["xseed"].i(), 0xC04u);
            lweSymEncrypt(x, (int32_t)(uint32_t)c["phi"].i(), cfg.a_in, K.key_in);
        }
        x->current_variance = 0;
        std::vector<uint32_t> av(n);
        for (int i = 0; i < n; i++) { av[i] = (uint32_t)x->a[i]; if (K.key_in->key[i] && is_tie(av[i])) ta++; }
        if (is_tie((uint32_t)x->b)) tb = 1;
        p_up = predict_p(av, (uint32_t)x->b, K.key_in, N2);
        std::vector<uint32_t> xa(av); int32_t xb = x->b;
        switch (f) {
            case 0: tfhe_bootstrap_FFT(res, K.bkFFT, (int32_t)mu, x); break;
            case 1: tfhe_bootstrap_woKS_FFT(res, K.bkFFT, (int32_t)mu, x); break;
            case 2: tfhe_bootstrap(res, K.bk, (int32_t)mu, x); break;
            default: tfhe_bootstrap_woKS(res, K.bk, (int32_t)mu, x); break;
        }
        if (x->b != xb || memcmp(x->a, xa.data(), (size_t)n * 4)) why = "bootstrapping modified its input sample";
    } else {
        barb = (int)(c["barb"].i() % N2);
        int bk = (int)c["barakind"].i();
        for (int i = 0; i < n; i++) bara[i] = bk == 0 ? (int32_t)(r.next() % N2) : bk == 1 ? 0 : bk == 2 ? N2 - 1 : 0;
        if (bk == 3) bara[r.next() % n] = (int32_t)(1 + r.next() % (N2 - 1));
        if (bk == 4) for (int i = 0; i < n; i++) bara[i] = (i & 1) ? 0 : N2 - 1;
        int64_t S = 0;
        for (int i = 0; i < n; i++) if (K.key_in->key[i]) S += bara[i];
        p_up = (int)((((int64_t)barb - S) % N2 + N2) % N2);
    }
    // expected value(s)
    std::vector<uint32_t> v(N);
    if (f >= 4) fill_v(v.data(), (int)c["vkind"].i(), (uint64_t)c["vseed"].i());
    else std::fill(v.begin(), v.end(), mu);
    if (f >= 4) {
        TorusPolynomial *tv = new_TorusPolynomial(N);
        memcpy(tv->coefsT, v.data(), N * 4);
        std::vector<int32_t> bcopy(bara);
        if (f == 4) tfhe_blindRotateAndExtract_FFT(res, tv, K.bkFFT->bkFFT, barb, bara.data(), n, K.Pg);
        else tfhe_blindRotateAndExtract(res, tv, K.bk->bk, barb, bara.data(), n, K.Pg);
        if (memcmp(tv->coefsT, v.data(), N * 4)) why = "blindRotateAndExtract modified the test polynomial";
        if (bcopy != bara) why = "blindRotateAndExtract modified the exponent array";
        delete_TorusPolynomial(tv);
    }
    const bool noisefree = cfg.a_bk < 1e-9 && (!withKS || cfg.a_in < 1e-9);
    // Tolerance (analytic, not fitted).  Each CMux step with key bit 1 and a non-zero exponent adds the gadget truncation term
    // s_i*(eps_b - sum_j s_j (*) eps_aj) with 0 <= eps < 2^-(l*Bgbit): at most S1*prec per step, where S1 = 1 + sum_j |s_j|_1.  The truncation is a floor, so the
    // term is biased (+-(N/2)*prec/2 depending on the coefficient position): under structured exponent vectors it adds up linearly (worst case
    // steps*S1*prec), under random rotations it is a random walk (12 sigma: 12*sqrt(steps/3)*S1*prec/2).  Key-switch rounding: 12*sqrt(kN/2/12)*2^-(t*basebit).
    // Row noise: none for noise-free keys (2^-12 slack for FFT rounding), 12*bound for the default noise levels.
    double S1 = 1;
    for (int j = 0; j < k; j++) for (int i = 0; i < N; i++) S1 += K.key_g->tlwe_key.key[j].coefs[i];
    int steps = 0;
    for (int i = 0; i < n; i++) if (K.key_in->key[i] && (f >= 4 ? bara[i] != 0 : round2N((uint32_t)x->a[i], N2) != 0)) steps++;
    const double prec = std::ldexp(1.0, -cfg.l * cfg.Bgbit);
    const bool structured = f >= 4 && c["barakind"].i() != 0;
    double tol = structured ? steps * S1 * prec : 12 * std::sqrt(steps / 3.0) * S1 * prec / 2;
    tol += noisefree ? 1.0 / 4096 : 12 * 4.7e-3 * (k == 2 ? 1.4 : 1.0);
    if (withKS) tol += 12 * std::sqrt(k * N / 24.0) * std::ldexp(1.0, -cfg.t * cfg.bb);
    if (tol > 1.0 / 16) { delete_LweSample(x); delete_LweSample(res); return "SKIP"; } // cannot discriminate a wrong coefficient: not asserted (counted)
    uint32_t ph = withKS ? xphase_n(res, K.key_in->key, n) : xphase_n(res, K.key_ex->key, k * N);
    bool ok = false;
    double best = 1;
    for (int p = p_up - tb; p <= p_up + ta; p++) {
        int pp = ((p % N2) + N2) % N2;
        uint32_t expect = pp < N ? v[pp] : (uint32_t)0 - v[pp - N];
        double d = std::fabs((double)(int32_t)(ph - expect) / 4294967296.0);
        if (d < best) best = d;
        if (d <= tol) ok = true;
    }
    if (why.empty() && !ok) {
        int pp = p_up;
        uint32_t expect = pp < N ? v[pp] : (uint32_t)0 - v[pp - N];
        snprintf(buf, sizeof buf, "%s n=%d k=%d (l,Bgbit)=(%d,%d): rounded phase p=%d of 2N (ties: b %d, a %d) so the result must encrypt %.6f, its phase is %.6f (off by %.6f, tolerance %.6f)",
                 FN[f], n, k, cfg.l, cfg.Bgbit, p_up, tb, ta, (double)(int32_t)expect / 4294967296.0, (double)(int32_t)ph / 4294967296.0, best, tol);
        why = buf;
    }
    delete_LweSample(x); delete_LweSample(res);
    return why;
}

static J mkcfg(int n, int k, int l, int Bgbit, int t, int bb, double a_in, double a_bk, uint64_t seed) {
    BCfg c; c.n = n; c.k = k; c.l = l; c.Bgbit = Bgbit; c.t = t; c.bb = bb; c.a_in = a_in; c.a_bk = a_bk; c.seed = seed; return c.json();
}
static J mkboot(const J &cfg, int f, uint32_t mu, int xkind, int p, int edge, uint32_t phi, uint64_t xseed) {
    J c = J::object();
    c.set("cfg", cfg).set("f", f).set("fn", FN[f]).set("mu", (uint64_t)mu).set("xkind", xkind).set("p", p).set("edge", edge).set("phi", (uint64_t)phi).set("xseed", xseed);
    return c;
}

int main(int argc, char **argv) {
    Args A(argc, argv);
    Harness H(A, "c04");
    H.run_case = [&](const J &c, std::string &sig) { std::string w = run_case(c, sig); if (w == "SKIP") { H.R.cls("skipped_tolerance_too_wide"); return std::string(); } return w; };
    H.nontrivial = [](const J &c) {
        int p = (int)(c["p"].i() % N2);
        bool boundary = c["f"].i() < 4 && c["xkind"].i() < 2 && (p <= 1 || p >= N2 - 1 || (p >= N - 1 && p <= N + 1));
        return boundary || c["cfg"]["n"].i() > N || c["cfg"]["k"].i() == 2;
    };
    H.classify = [](const J &c) { return std::string(FN[c["f"].i()]) + (c["cfg"]["n"].i() > N ? "_n>N" : "") + (c["cfg"]["k"].i() == 2 ? "_k2" : ""); };
    if (H.mode == "replay") return H.replay(A.s("replay"));
    const uint64_t seed = A.u("seed", 1);
    const double TINY = 1e-300;
    if (H.mode == "sweep") { // all 2N values of p: trivial centre + 3 edges, and a targeted random mask; one key set, one function
        J cfg = mkcfg((int)A.i("n", 8), (int)A.i("k", 1), (int)A.i("l", 3), (int)A.i("Bgbit", 7), (int)A.i("t", 8), (int)A.i("bb", 2),
                      A.has("noisy") ? std::ldexp(1.0, -15) : TINY, A.has("noisy") ? std::ldexp(1.0, -25) : TINY, seed);
        int f = (int)A.i("f", 1), plo = (int)A.i("plo", 0), phi = (int)A.i("phi", N2), masks = (int)A.i("masks", 1);
        for (int p = plo; p < phi; p++) {
            uint32_t mu = (p & 1) ? MU8 : (uint32_t)0 - MU8 * 3; // +1/8 and -3/8 alternate
            for (int edge = 0; edge < 4; edge++) H.exec(mkboot(cfg, f, mu, 0, p, edge, 0, 0), false);
            for (int m = 0; m < masks; m++) H.exec(mkboot(cfg, f, mu, 1, p, 0, 0, mix64(seed, p * 16 + m)), false);
            if (H.R.failure_count > 20) break;
        }
        return H.finish();
    }
    // key-set menu for the random part: small n dominate (cheap), the expensive ones appear with small weight
    struct Menu { int w, n, k, l, Bgbit, t, bb; bool noisy; };
    std::vector<Menu> menu = {{6, 1, 1, 3, 7, 8, 2, false}, {6, 7, 1, 2, 10, 8, 2, false}, {6, 8, 1, 4, 6, 16, 1, false}, {6, 9, 2, 3, 7, 8, 2, false}, {4, 8, 2, 2, 10, 4, 4, false},
                              {4, 12, 1, 3, 8, 8, 2, false}, {4, 5, 1, 7, 3, 6, 3, false}, {4, 6, 1, 10, 2, 8, 2, false}, {3, 16, 1, 3, 10, 9, 2, false}, {3, 10, 2, 5, 5, 8, 2, false}, {3, 6, 1, 4, 8, 10, 2, false}};
    if (A.i("big", 0)) { menu = {{2, 500, 1, 2, 10, 8, 2, true}, {2, 630, 1, 3, 7, 8, 2, true}, {2, 630, 1, 3, 10, 8, 2, false}, {1, 1025, 1, 3, 7, 8, 2, false}, {1, 1100, 1, 3, 10, 8, 2, false}, {1, 1030, 2, 3, 8, 4, 4, false}}; }
    int wtotal = 0;
    for (auto &m : menu) wtotal += m.w;
    H.rc_loop("C04 bootstrapping maps the rounded phase through the test polynomial", [&]() {
        int pick = *rng<int>(0, wtotal - 1), mi = 0;
        while (pick >= menu[mi].w) { pick -= menu[mi].w; mi++; }
        const Menu &m = menu[mi];
        J cfg = mkcfg(m.n, m.k, m.l, m.Bgbit, m.t, m.bb, m.noisy ? (m.n == 500 ? 2.44e-5 : std::ldexp(1.0, -15)) : TINY, m.noisy ? (m.n == 500 ? 7.18e-9 : std::ldexp(1.0, -25)) : TINY, seed + (uint64_t)*rng<int>(0, 1));
        int f = *rc::gen::weightedElement<int>({{4, 0}, {4, 1}, {1, 2}, {1, 3}, {3, 4}, {1, 5}});
        if (m.n > 100 && (f == 2 || f == 3 || f == 5) && *rng<int>(0, 3)) f -= (f == 5 ? 1 : 2); // coefficient-domain variants are ~5x slower: rarely on big n
        uint32_t mu = *rc::gen::weightedOneOf<uint32_t>({{3, rc::gen::element<uint32_t>(1u << 29, 7u << 29, 2u << 29, 3u << 29)}, {3, rc::gen::map(rc::gen::arbitrary<uint32_t>(), [](uint32_t x) { return (x & 0x7fffffffu) | 0x10000000u; })},
                                                         {1, rc::gen::element<uint32_t>(0u, 0x80000000u)}});
        int p = *rc::gen::weightedOneOf<int>({{3, rc::gen::element<int>(0, 1, N - 1, N, N + 1, N2 - 1)}, {2, rng<int>(0, N2 - 1)}});
        if (f < 4) {
            int xkind = *rc::gen::weightedElement<int>({{2, 0}, {5, 1}, {2, 2}});
            uint32_t phi = *rc::gen::weightedOneOf<uint32_t>({{2, rc::gen::element<uint32_t>(1u << 29, 7u << 29, 3u << 29, 5u << 29)}, {1, rc::gen::arbitrary<uint32_t>()}});
            return mkboot(cfg, f, mu, xkind, p, *rng<int>(0, 3), phi, *genSeed());
        }
        J c = J::object();
        c.set("cfg", cfg).set("f", f).set("fn", FN[f]).set("mu", 0).set("xkind", 9).set("p", 0).set("barb", *rc::gen::weightedOneOf<int>({{1, rc::gen::element<int>(0, 1, N - 1, N, N2 - 1)}, {1, rng<int>(0, N2 - 1)}}));
        c.set("barakind", *rng<int>(0, 4)).set("vkind", *rng<int>(0, 4)).set("vseed", *genSeed()).set("xseed", *genSeed());
        return c;
    });
    return H.finish();
}
