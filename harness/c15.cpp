// C15 — evaluation leaves inputs and keys untouched, accepts aliased output, uses no RNG.
// (i) before/after snapshots of every input object; (ii) metamorphic RNG check through the API:
// seed; f(...); Enc(m) == seed; Enc(m); (iii) aliased call == non-aliased call on copies, byte for byte.
#include "hmain.hpp"
#include "bklib.hpp"
using namespace vf;

static const int N = 1024, N2 = 2048;
static const char *KINDS[] = {"gate", "bootstrap", "keyswitch", "extract", "extprod", "blindrotate"};
// alias patterns for gates: 0 none, 1 result=a, 2 result=b, 3 result=c, 4 a=b, 5 a=b=c, 6 all four equal
static const char *ALIAS[] = {"none", "result=a", "result=b", "result=c", "a=b", "a=b=c", "all equal"};

static void lwe_copy_raw(LweSample *d, const LweSample *s, int n) { memcpy(d->a, s->a, (size_t)n * 4); d->b = s->b; d->current_variance = s->current_variance; }
static bool lwe_eq(const LweSample *x, const LweSample *y, int n) { return !memcmp(x->a, y->a, (size_t)n * 4) && x->b == y->b && x->current_variance == y->current_variance; }

// RNG probe: the next fresh LWE encryption after `seed` must not depend on what ran in between
static uint64_t rng_probe(const LweKey *key) {
    LweSample *p = new_LweSample(key->params);
    lweSymEncrypt(p, 12345678, 1e-6, key);
    uint64_t h = snap_lwe(p, key->params->n);
    delete_LweSample(p);
    return h;
}

static std::string gate_case(const J &c) {
    KeySet &K = get_keyset((int)c["lambda"].i(), (uint64_t)c["keyseed"].i(), 2);
    const int n = K.n, g = (int)c["g"].i(), al = (int)c["alias"].i();
    seed_lib((uint64_t)c["seed"].i(), 0xC15u);
    int bits[3] = {(int)c["bits"][0].i() & 1, (int)c["bits"][1].i() & 1, (int)c["bits"][2].i() & 1};
    LweSample *in = new_gate_bootstrapping_ciphertext_array(3, K.params), *cp = new_gate_bootstrapping_ciphertext_array(3, K.params);
    LweSample *ref = new_gate_bootstrapping_ciphertext(K.params), *out = new_gate_bootstrapping_ciphertext(K.params);
    for (int i = 0; i < 3; i++) bootsSymEncrypt(in + i, bits[i], K.sk);
    const int ar = GATES[g].arity;
    // rounding ties: shift mask coefficients of input 0 (compensated on the body with the key bit, so phase and noise are unchanged)
    // so that a+b (even i) or 2(a+b) (odd i, for the doubling gates) lies exactly half-way between two multiples of 1/2N
    if (int ties = (int)c["ties"].i()) {
        const int32_t *key = K.sk->lwe_key->key;
        for (int i = 0; i < n; i++) {
            if (ties == 2 && i % 3 == 2) continue;
            uint32_t M = (i & 1) ? (1u << 20) : (1u << 21), T = M >> 1;
            uint32_t cur = (uint32_t)in[0].a[i] + (uint32_t)in[1].a[i];
            uint32_t delta = (T - cur) & (M - 1);
            in[0].a[i] = (int32_t)((uint32_t)in[0].a[i] + delta);
            in[0].b = (int32_t)((uint32_t)in[0].b + delta * (uint32_t)key[i]);
        }
    }
    // effective operands under the aliasing pattern
    if (al == 4 || al == 5 || al == 6) { lwe_copy_raw(in + 1, in, n); bits[1] = bits[0]; }
    if (al == 5 || al == 6) { lwe_copy_raw(in + 2, in, n); bits[2] = bits[0]; }
    for (int i = 0; i < 3; i++) lwe_copy_raw(cp + i, in + i, n);
    memset(out->a, 0x11, (size_t)n * 4); out->b = 0x11111111; out->current_variance = 0;
    // reference: non-aliased call on copies
    gate_apply(g, ref, cp, cp + 1, cp + 2, bits[0], K.ck);
    std::string why;
    char buf[300];
    for (int i = 0; i < 3 && why.empty(); i++) if (!lwe_eq(cp + i, in + i, n)) { snprintf(buf, sizeof buf, "%s modified its input %d (non-aliased call)", GATES[g].name, i); why = buf; }
    // snapshots of the key material
    uint64_t hk0 = snap_bkfft(K.ck->bkFFT), hb0 = c["fullsnap"].i() ? snap_bk(K.ck->bk) : 0, hp0 = snap_params(K.params->in_out_params, K.params->tgsw_params);
    // aliased call
    LweSample *pa = in, *pb = in + 1, *pc = in + 2, *pr = out;
    if (al == 1) pr = in; else if (al == 2) pr = in + 1; else if (al == 3) pr = in + 2;
    if (al == 4) pb = in; if (al == 5 || al == 6) { pb = in; pc = in; }
    if (al == 6) pr = in;
    if (ar < 2 && (al == 2 || al == 4)) pr = out, pb = in + 1;
    if (ar < 3 && (al == 3)) pr = out;
    uint64_t s2 = (uint64_t)c["seed"].i() ^ 0x5eed;
    seed_lib(s2, 0xC15Bu);
    gate_apply(g, pr, pa, pb, pc, bits[0], K.ck);
    uint64_t probe1 = rng_probe(K.sk->lwe_key);
    seed_lib(s2, 0xC15Bu);
    uint64_t probe2 = rng_probe(K.sk->lwe_key);
    if (why.empty() && probe1 != probe2) { snprintf(buf, sizeof buf, "%s consumed randomness: the next fresh encryption differs from the one obtained without evaluating the gate", GATES[g].name); why = buf; }
    if (why.empty() && !lwe_eq(pr, ref, n)) {
        snprintf(buf, sizeof buf, "%s with aliasing '%s': result differs from the non-aliased call on copies (decrypts to %d, reference %d, truth %d)", GATES[g].name, ALIAS[al],
                 bootsSymDecrypt(pr, K.sk), bootsSymDecrypt(ref, K.sk), gate_truth(g, bits[0], bits[1], bits[2]));
        why = buf;
    }
    for (int i = 0; i < 3 && why.empty(); i++) { LweSample *p = in + i; if (p == pr) continue; if (!lwe_eq(p, cp + i, n)) { snprintf(buf, sizeof buf, "%s with aliasing '%s' modified input %d", GATES[g].name, ALIAS[al], i); why = buf; } }
    if (why.empty() && (snap_bkfft(K.ck->bkFFT) != hk0 || (c["fullsnap"].i() && snap_bk(K.ck->bk) != hb0) || snap_params(K.params->in_out_params, K.params->tgsw_params) != hp0)) {
        snprintf(buf, sizeof buf, "%s modified the cloud key or the parameter objects", GATES[g].name); why = buf;
    }
    delete_gate_bootstrapping_ciphertext_array(3, in); delete_gate_bootstrapping_ciphertext_array(3, cp);
    delete_gate_bootstrapping_ciphertext(ref); delete_gate_bootstrapping_ciphertext(out);
    return why;
}

static std::string low_case(const J &c) {
    const std::string kind = c["k"].s();
    BCfg cfg = BCfg::from(c["cfg"]);
    BKey &K = get_bkey(cfg);
    const int n = cfg.n, k = cfg.k, f = (int)c["f"].i();
    SplitMix r((uint64_t)c["seed"].i());
    std::string why;
    char buf[300];
    const uint64_t hbk0 = snap_bk(K.bk), hfft0 = snap_bkfft(K.bkFFT);
    uint64_t s2 = (uint64_t)c["seed"].i() ^ 0xabcdef;
    seed_lib(s2, 0xC15Cu);
    if (kind == "bootstrap") {
        LweSample *x = new_LweSample(K.Pin), *x0 = new_LweSample(K.Pin);
        bool ks = f == 0 || f == 2;
        LweSample *res = new_LweSample(ks ? K.Pin : &K.Ptl->extracted_lweparams);
        for (int i = 0; i < n; i++) x->a[i] = r.i32();
        x->b = r.i32(); x->current_variance = 1e-9;
        if (c["ties"].i()) { for (int i = 0; i < n; i++) if (i % 2 == 0 || c["ties"].i() == 1) x->a[i] = (int32_t)(((uint32_t)x->a[i] & ~((1u << 21) - 1)) | (1u << 20)); x->b = (int32_t)(((uint32_t)x->b & ~((1u << 21) - 1)) | (1u << 20)); } // exact rounding ties of the 2N modulus switch
        lwe_copy_raw(x0, x, n);
        int32_t mu = r.i32();
        switch (f) { case 0: tfhe_bootstrap_FFT(res, K.bkFFT, mu, x); break; case 1: tfhe_bootstrap_woKS_FFT(res, K.bkFFT, mu, x); break; case 2: tfhe_bootstrap(res, K.bk, mu, x); break; default: tfhe_bootstrap_woKS(res, K.bk, mu, x); }
        if (!lwe_eq(x, x0, n)) why = "bootstrapping modified its input sample";
        // aliased output (FFT variant with key switch has input and output under the same parameters)
        if (why.empty() && f == 0) {
            LweSample *ref = new_LweSample(K.Pin);
            lwe_copy_raw(ref, res, n);
            tfhe_bootstrap_FFT(x, K.bkFFT, mu, x);
            if (!lwe_eq(x, ref, n)) why = "tfhe_bootstrap_FFT with result == input differs from the non-aliased call";
            delete_LweSample(ref);
        }
        delete_LweSample(x); delete_LweSample(x0); delete_LweSample(res);
    } else if (kind == "keyswitch") {
        const int nex = k * N;
        LweSample *x = new_LweSample(&K.Ptl->extracted_lweparams), *x0 = new_LweSample(&K.Ptl->extracted_lweparams), *res = new_LweSample(K.Pin);
        for (int i = 0; i < nex; i++) x->a[i] = r.i32();
        x->b = r.i32(); x->current_variance = 0;
        lwe_copy_raw(x0, x, nex);
        lweKeySwitch(res, K.bk->ks, x);
        if (!lwe_eq(x, x0, nex)) why = "lweKeySwitch modified its input sample";
        delete_LweSample(x); delete_LweSample(x0); delete_LweSample(res);
    } else if (kind == "extract") {
        TLweSample *t = new_TLweSample(K.Ptl);
        for (int i = 0; i <= k; i++) for (int j = 0; j < N; j++) t->a[i].coefsT[j] = r.i32();
        t->current_variance = 0;
        uint64_t h0 = snap_tlwe(t, N, k);
        LweSample *res = new_LweSample(&K.Ptl->extracted_lweparams);
        if (f & 1) tLweExtractLweSample(res, t, &K.Ptl->extracted_lweparams, K.Ptl); else tLweExtractLweSampleIndex(res, t, (int)(r.next() % N), &K.Ptl->extracted_lweparams, K.Ptl);
        if (snap_tlwe(t, N, k) != h0) why = "extraction modified the TLWE sample";
        delete_LweSample(res); delete_TLweSample(t);
    } else if (kind == "extprod") {
        TLweSample *t = new_TLweSample(K.Ptl), *res = new_TLweSample(K.Ptl);
        int ck = (int)c["ckind"].i();
        for (int i = 0; i <= k; i++) fill_torus((uint32_t *)t->a[i].coefsT, N, ck, r.next());
        t->current_variance = 0;
        uint64_t h0 = snap_tlwe(t, N, k);
        const TGswSample *g = &K.bk->bk[r.next() % n];
        const TGswSampleFFT *gf = &K.bkFFT->bkFFT[r.next() % n];
        if (f == 0) { tGswExternProduct(res, g, t, K.Pg); if (snap_tlwe(t, N, k) != h0) why = "tGswExternProduct left its (const) TLWE input modified (decomposition offset not removed?)"; }
        else if (f == 1) { IntPolynomial *d = new_IntPolynomial_array(K.Pg->kpl, N); tGswTLweDecompH(d, t, K.Pg); if (snap_tlwe(t, N, k) != h0) why = "tGswTLweDecompH left its (const) input modified"; delete_IntPolynomial_array(K.Pg->kpl, d); }
        else if (f == 2) { IntPolynomial *d = new_IntPolynomial_array(K.Pg->l, N); tGswTorus32PolynomialDecompH(d, &t->a[0], K.Pg); if (snap_tlwe(t, N, k) != h0) why = "tGswTorus32PolynomialDecompH left its (const) input modified"; delete_IntPolynomial_array(K.Pg->l, d); }
        else if (f == 3) { tGswExternMulToTLwe(t, g, K.Pg); }
        else { tGswFFTExternMulToTLwe(t, gf, K.Pg); }
        delete_TLweSample(t); delete_TLweSample(res);
    } else { // blindrotate (+ and-extract): test polynomial, exponent vector and key untouched
        std::vector<int32_t> bara(n), b0;
        for (int i = 0; i < n; i++) bara[i] = (int32_t)(r.next() % N2);
        b0 = bara;
        TorusPolynomial *v = new_TorusPolynomial(N);
        for (int j = 0; j < N; j++) v->coefsT[j] = r.i32();
        uint64_t hv = hash_words(v->coefsT, N * 4, 3);
        LweSample *res = new_LweSample(&K.Ptl->extracted_lweparams);
        TLweSample *acc = new_TLweSample(K.Ptl);
        for (int i = 0; i <= k; i++) for (int j = 0; j < N; j++) acc->a[i].coefsT[j] = r.i32();
        switch (f) {
            case 0: tfhe_blindRotateAndExtract_FFT(res, v, K.bkFFT->bkFFT, (int)(r.next() % N2), bara.data(), n, K.Pg); break;
            case 1: tfhe_blindRotateAndExtract(res, v, K.bk->bk, (int)(r.next() % N2), bara.data(), n, K.Pg); break;
            case 2: tfhe_blindRotate_FFT(acc, K.bkFFT->bkFFT, bara.data(), n, K.Pg); break;
            default: tfhe_blindRotate(acc, K.bk->bk, bara.data(), n, K.Pg); break;
        }
        if (hash_words(v->coefsT, N * 4, 3) != hv) why = "blind rotation modified the caller's test polynomial";
        if (bara != b0) why = "blind rotation modified the exponent array";
        delete_TLweSample(acc); delete_LweSample(res); delete_TorusPolynomial(v);
    }
    uint64_t probe1 = rng_probe(K.key_in);
    seed_lib(s2, 0xC15Cu);
    uint64_t probe2 = rng_probe(K.key_in);
    if (why.empty() && probe1 != probe2) { snprintf(buf, sizeof buf, "%s (variant %d) consumed randomness from the library generator", kind.c_str(), f); why = buf; }
    if (why.empty() && (snap_bk(K.bk) != hbk0 || snap_bkfft(K.bkFFT) != hfft0)) { snprintf(buf, sizeof buf, "%s (variant %d) modified the bootstrapping / key-switching key", kind.c_str(), f); why = buf; }
    return why;
}

static std::string run_case(const J &c, std::string &sig) {
    sig = "c15/" + c["k"].s();
    if (c["k"].s() == "gate") { sig += std::string("/") + GATES[c["g"].i()].name + "/" + ALIAS[c["alias"].i()]; return gate_case(c); }
    return low_case(c);
}

int main(int argc, char **argv) {
    Args A(argc, argv);
    Harness H(A, "c15");
    H.run_case = run_case;
    H.nontrivial = [](const J &c) { return c["k"].s() == "gate" ? c["alias"].i() != 0 : (c["k"].s() == "extprod" || c["k"].s() == "bootstrap"); };
    H.classify = [](const J &c) { return (c["k"].s() == "gate" ? std::string("gate_") + ALIAS[c["alias"].i()] : c["k"].s() + "_" + std::to_string(c["f"].i())) + (c["ties"].i() ? "_roundingTies" : ""); };
    if (H.mode == "replay") return H.replay(A.s("replay"));
    const uint64_t seed = A.u("seed", 1);
    auto mkgate = [&](int lambda, int g, int row, int al, uint64_t s, int full) {
        J c = J::object();
        c.set("k", "gate").set("lambda", lambda).set("keyseed", seed).set("g", g).set("gate", GATES[g].name).set("alias", al).set("aliasing", ALIAS[al]);
        c.set("bits", J::arr(std::vector<int>{row & 1, (row >> 1) & 1, (row >> 2) & 1})).set("seed", s).set("fullsnap", full).set("ties", (int)(s % 4 == 1 ? 1 : s % 4 == 2 ? 2 : 0));
        return c;
    };
    if (H.mode == "table") { // every gate x every aliasing pattern that applies x two truth-table rows
        int lambda = (int)A.i("lambda", 128);
        for (int g = (int)A.i("gfrom", 0); g <= (int)A.i("gto", G_COUNT - 1); g++)
            for (int al = 0; al < 7; al++) {
                int ar = GATES[g].arity;
                if (ar < 2 && (al == 2 || al == 4 || al == 5)) continue;
                if (ar < 3 && (al == 3 || al == 5)) continue;
                if (g == G_CONSTANT && al != 0) continue;
                for (int row : {5, 2, 7, 0}) { H.exec(mkgate(lambda, g, row, al, mix64(seed, g * 100 + al * 10 + row), row == 5)); if (A.i("rows", 4) <= 2 && row == 2) break; }
                if (H.R.failure_count > 10) return H.finish();
            }
        return H.finish();
    }
    H.rc_loop("C15 evaluation leaves inputs/keys untouched, accepts aliased output, uses no RNG", [&]() {
        int which = *rc::gen::weightedElement<int>({{5, 0}, {3, 1}, {1, 2}, {1, 3}, {4, 4}, {2, 5}});
        if (which == 0) {
            int g = *rng<int>(0, G_COUNT - 1);
            return mkgate(*rc::gen::element<int>(128, 80), g, *rng<int>(0, 7), *rng<int>(0, 6), *genSeed(), *rng<int>(0, 9) == 0);
        }
        J c = J::object();
        BCfg cfg;
        static const int LB[5][2] = {{3, 7}, {2, 10}, {4, 8}, {8, 4}, {2, 16}};
        int lb = *rng<int>(0, 4);
        cfg.n = *rng<int>(1, 12); cfg.k = *rc::gen::weightedElement<int>({{3, 1}, {1, 2}}); cfg.l = LB[lb][0]; cfg.Bgbit = LB[lb][1]; cfg.t = *rc::gen::element<int>(2, 8); cfg.bb = *rc::gen::element<int>(1, 2);
        cfg.a_in = 1e-9; cfg.a_bk = 1e-9; cfg.seed = seed + (uint64_t)*rng<int>(0, 1);
        c.set("k", KINDS[which]).set("cfg", cfg.json()).set("f", *rng<int>(0, which == 4 ? 4 : 3)).set("seed", *genSeed()).set("ckind", *rc::gen::element<int>(0, 0, 1, 2, 3, 6)).set("ties", *rc::gen::weightedElement<int>({{3, 0}, {1, 1}, {1, 2}}));
        return c;
    });
    return H.finish();
}
