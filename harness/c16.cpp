// C16 — no out-of-bounds access, uninitialised read or leak for any valid configuration.
// A generated API lifecycle (state machine with a liveness model) is driven under AddressSanitizer /
// LeakSanitizer (leak check after every case, so leaks shrink like any other failure), under valgrind
// (hand-written assembly), and twice with different allocation fill bytes (outputs must be identical).
#include "hmain.hpp"
#include "iolib.hpp"
#include <thread>
#if defined(__SANITIZE_ADDRESS__)
#include <sanitizer/lsan_interface.h>
#define HAVE_LSAN 1
#else
#define HAVE_LSAN 0
#endif
using namespace vf;

static const int N = 1024;
enum { S_ENC, S_GATE, S_BOOT, S_EXPORT_CT, S_EXPORT_CLOUD, S_EXPORT_SECRET, S_IMPORT_CLOUD, S_IMPORT_SECRET, S_DELETE_CT, S_DELETE_IMPORTED, S_THREAD, S_PARAMS_IO, S_ARRAY, S_KEYSWITCH, S_DECRYPT, S_KEY2, S_LOWLEVEL, S_COUNT };
static const char *SNAME[] = {"enc", "gate", "bootstrap", "export-ct", "export-cloud", "export-secret", "import-cloud", "import-secret", "delete-ct", "delete-imported", "thread", "params-io", "array", "keyswitch", "decrypt", "second-keyset", "lowlevel-bk-lifecycle"};
static std::vector<std::string> g_digests;

static std::string bytes_ct(const LweSample *s, const LweParams *P, bool file) {
    if (!file) { std::ostringstream ss; export_lweSample_toStream(ss, s, P); return ss.str(); }
    char *b = nullptr; size_t len = 0; FILE *F = open_memstream(&b, &len); export_lweSample_toFile(F, s, P); fclose(F); std::string r(b, len); free(b); return r;
}

static std::string run_case(const J &c, std::string &sig) {
    sig = "c16/lifecycle";
    const J &cf = c["cfg"];
    seed_lib((uint64_t)c["seed"].i(), 0xC16u);
    // --- parameters: default sets through the selector, custom ones through the public constructors
    LweParams *lp = nullptr; TLweParams *tp = nullptr; TGswParams *gp = nullptr;
    TFheGateBootstrappingParameterSet *params;
    if (cf["lambda"].i()) params = new_default_gate_bootstrapping_parameters((int)cf["lambda"].i());
    else {
        lp = new_LweParams((int)cf["n"].i(), 1e-9, 0.01); tp = new_TLweParams(N, (int)cf["k"].i(), 1e-9, 0.01); gp = new_TGswParams((int)cf["l"].i(), (int)cf["Bgbit"].i(), tp);
        params = new TFheGateBootstrappingParameterSet((int)cf["t"].i(), (int)cf["bb"].i(), lp, gp);
    }
    const int n = params->in_out_params->n;
    TFheGateBootstrappingSecretKeySet *sk = new_random_gate_bootstrapping_secret_keyset(params);
    const TFheGateBootstrappingCloudKeySet *ck = &sk->cloud;
    std::vector<LweSample *> wires; std::vector<int> bits;
    std::vector<TFheGateBootstrappingCloudKeySet *> imp_cloud; std::vector<TFheGateBootstrappingSecretKeySet *> imp_secret;
    std::string last_cloud, last_secret;
    uint64_t digest = 0x1234;
    auto mixin = [&](const void *p, size_t len) { digest = hash_words(p, len, digest); };
    auto newwire = [&](int bit) { LweSample *s = new_gate_bootstrapping_ciphertext(params); bootsSymEncrypt(s, bit, sk); wires.push_back(s); bits.push_back(bit); };
    auto pick = [&](int64_t x) { return wires[(size_t)(x % (int64_t)wires.size())]; };
    newwire(1); newwire(0);
    std::string why;
    for (auto &st : c["steps"].av) {
        const int op = (int)(st[0].i() % S_COUNT);
        const int64_t a = st[1].i(), b = st[2].i(), d = st[3].i();
        const TFheGateBootstrappingCloudKeySet *use = (!imp_cloud.empty() && (a & 4)) ? imp_cloud.back() : ck;
        switch (op) {
            case S_ENC: newwire((int)(a & 1)); break;
            case S_GATE: {
                static const int GT[20] = {G_NAND, G_OR, G_AND, G_XOR, G_XNOR, G_NOR, G_ANDNY, G_ANDYN, G_ORNY, G_ORYN, G_MUX, G_NOT, G_COPY, G_CONSTANT, G_MUX, G_MUX, G_AND, G_XOR, G_MUX, G_NAND};
                int g = GT[a % 20]; // the three-input gate (two bootstraps, its own scratch samples) gets a fifth of the gate steps
                LweSample *r = (d & 8) && wires.size() > 2 ? pick(d) : nullptr; // in place on an existing ciphertext or into a new one
                bool fresh = r == nullptr;
                if (fresh) r = new_gate_bootstrapping_ciphertext(params);
                LweSample *ia = pick(b), *tmp = nullptr;
                if (d & 16) { // first input replaced by a copy whose body makes the body of a+b-1/8 (AND, NAND, MUX branch) round to exactly 0: no-rotation path of the blind rotation
                    tmp = new_gate_bootstrapping_ciphertext(params); lweCopy(tmp, ia, params->in_out_params);
                    tmp->b = (int32_t)(MU8 - (uint32_t)pick(b >> 8)->b + (uint32_t)(d >> 5) % 1024u); ia = tmp;
                }
                gate_apply(g, r, ia, pick(b >> 8), pick(b >> 16), (int)(a & 1), use);
                if (tmp) delete_gate_bootstrapping_ciphertext(tmp);
                mixin(r->a, (size_t)n * 4); mixin(&r->b, 4);
                if (fresh) { wires.push_back(r); bits.push_back(0); }
                break; }
            case S_BOOT: { // low-level variants: memory behaviour only (their variance annotation is not part of the digest)
                int v = (int)(a % 4);
                bool ks = v == 0 || v == 2;
                LweSample *r = new_LweSample(ks ? params->in_out_params : &params->tgsw_params->tlwe_params->extracted_lweparams);
                LweSample *x = pick(b), *tmp = nullptr;
                if (a & 8) { tmp = new_gate_bootstrapping_ciphertext(params); lweCopy(tmp, x, params->in_out_params); tmp->b = (int32_t)(d % 1000) - 500; x = tmp; } // body rounds to 0: no initial rotation of the test vector
                switch (v) { case 0: tfhe_bootstrap_FFT(r, ck->bkFFT, (int32_t)d, x); break; case 1: tfhe_bootstrap_woKS_FFT(r, ck->bkFFT, (int32_t)d, x); break;
                             case 2: tfhe_bootstrap(r, ck->bk, (int32_t)d, x); break; default: tfhe_bootstrap_woKS(r, ck->bk, (int32_t)d, x); }
                mixin(&r->b, 4); mixin(r->a, (size_t)(ks ? n : params->tgsw_params->tlwe_params->extracted_lweparams.n) * 4);
                if (tmp) delete_gate_bootstrapping_ciphertext(tmp);
                delete_LweSample(r);
                break; }
            case S_EXPORT_CT: { std::string s = bytes_ct(pick(b), params->in_out_params, a & 1); mixin(s.data(), s.size()); break; }
            case S_EXPORT_CLOUD: { IoObj o; o.type = T_CLOUD; o.p = sk; last_cloud = io_export_bytes(&o, a & 1); mixin(last_cloud.data(), last_cloud.size()); break; }
            case S_EXPORT_SECRET: { IoObj o; o.type = T_SECRET; o.p = sk; last_secret = io_export_bytes(&o, a & 1); mixin(last_secret.data(), last_secret.size()); break; }
            case S_IMPORT_CLOUD: {
                if (last_cloud.empty() || imp_cloud.size() >= 2) break;
                if (a & 1) { FILE *F = fmemopen((void *)last_cloud.data(), last_cloud.size(), "rb"); imp_cloud.push_back(new_tfheGateBootstrappingCloudKeySet_fromFile(F)); fclose(F); }
                else { std::istringstream S(last_cloud); imp_cloud.push_back(new_tfheGateBootstrappingCloudKeySet_fromStream(S)); }
                break; }
            case S_IMPORT_SECRET: {
                if (last_secret.empty() || imp_secret.size() >= 1) break;
                std::istringstream S(last_secret); imp_secret.push_back(new_tfheGateBootstrappingSecretKeySet_fromStream(S));
                int bit = bootsSymDecrypt(pick(b), imp_secret.back()); mixin(&bit, 4);
                break; }
            case S_DELETE_CT: if (wires.size() > 2) { size_t i = (size_t)(b % (int64_t)wires.size()); delete_gate_bootstrapping_ciphertext(wires[i]); wires.erase(wires.begin() + i); bits.erase(bits.begin() + i); } break;
            case S_DELETE_IMPORTED:
                if (!imp_cloud.empty() && (a & 1)) { delete_gate_bootstrapping_cloud_keyset(imp_cloud.back()); imp_cloud.pop_back(); }
                else if (!imp_secret.empty()) { delete_gate_bootstrapping_secret_keyset(imp_secret.back()); imp_secret.pop_back(); }
                break;
            case S_THREAD: { // a thread that evaluates a few gates with the shared key and exits: its FFT state must be released
                int cnt = 1 + (int)(a % 2);
                uint64_t th_digest = 0;
                std::thread t([&]() {
                    LweSample *r = new_gate_bootstrapping_ciphertext(params);
                    for (int q = 0; q < cnt; q++) { gate_apply((int)((b + q) % 11), r, pick(d), pick(d >> 8), pick(d >> 16), 0, use); th_digest = hash_words(r->a, (size_t)n * 4, th_digest ^ (uint32_t)r->b); }
                    delete_gate_bootstrapping_ciphertext(r);
                });
                t.join();
                mixin(&th_digest, 8);
                break; }
            case S_PARAMS_IO: {
                std::ostringstream ss; export_tfheGateBootstrappingParameterSet_toStream(ss, params); std::string s = ss.str(); mixin(s.data(), s.size());
                std::istringstream in(s); TFheGateBootstrappingParameterSet *p2 = new_tfheGateBootstrappingParameterSet_fromStream(in);
                LweSample *x = new_gate_bootstrapping_ciphertext(p2); delete_gate_bootstrapping_ciphertext(x);
                delete_gate_bootstrapping_parameters(p2); // its LWE/TGSW parameter objects stay with the library's collector by design
                break; }
            case S_ARRAY: { int len = 1 + (int)(a % 5); LweSample *arr = new_gate_bootstrapping_ciphertext_array(len, params); for (int i = 0; i < len; i++) bootsSymEncrypt(arr + i, i & 1, sk);
                bootsCOPY(arr, arr + len - 1, ck); mixin(arr->a, (size_t)n * 4); delete_gate_bootstrapping_ciphertext_array(len, arr); break; }
            case S_KEYSWITCH: { const LweParams *ex = &params->tgsw_params->tlwe_params->extracted_lweparams; LweSample *x = new_LweSample(ex), *r = new_LweSample(params->in_out_params);
                SplitMix rr((uint64_t)d); for (int i = 0; i < ex->n; i++) x->a[i] = rr.i32(); x->b = rr.i32(); x->current_variance = 0;
                lweKeySwitch(r, ck->bk->ks, x); mixin(r->a, (size_t)n * 4); mixin(&r->b, 4); delete_LweSample(x); delete_LweSample(r); break; }
            case S_DECRYPT: { int bit = bootsSymDecrypt(pick(b), sk); mixin(&bit, 4); break; }
            case S_KEY2: { // a second key set with another input dimension, used alternately with the first one on the same thread, then released
                static const int NS[] = {1, 5, 12, 40, 77, 300, 640};
                int n2 = NS[a % 7];
                if (n2 == n) n2 += 3;
                LweParams *lp2 = new_LweParams(n2, 1e-9, 0.01); TLweParams *tp2 = new_TLweParams(N, 1 + (int)(a & 1), 1e-9, 0.01); TGswParams *gp2 = new_TGswParams(2, 8, tp2);
                TFheGateBootstrappingParameterSet *p2 = new TFheGateBootstrappingParameterSet(1 + (int)(b % 3), 1 + (int)(b % 2), lp2, gp2);
                TFheGateBootstrappingSecretKeySet *sk2 = new_random_gate_bootstrapping_secret_keyset(p2);
                LweSample *w2 = new_gate_bootstrapping_ciphertext_array(3, p2);
                bootsSymEncrypt(w2, 1, sk2); bootsSymEncrypt(w2 + 1, 0, sk2);
                LweSample *r1 = new_gate_bootstrapping_ciphertext(params);
                for (int q = 0; q < 2; q++) {
                    gate_apply((int)((d + q) % 11), w2 + 2, w2, w2 + 1, w2, 0, &sk2->cloud); mixin(w2[2].a, (size_t)n2 * 4);
                    gate_apply((int)((d + q + 3) % 11), r1, pick(b), pick(b >> 8), pick(b >> 16), 0, ck); mixin(r1->a, (size_t)n * 4);
                }
                delete_gate_bootstrapping_ciphertext(r1); delete_gate_bootstrapping_ciphertext_array(3, w2);
                delete_gate_bootstrapping_secret_keyset(sk2); delete_gate_bootstrapping_parameters(p2); delete_TGswParams(gp2); delete_TLweParams(tp2); delete_LweParams(lp2);
                break; }
            case S_LOWLEVEL: { // low-level key objects released in either order: the FFT key owns its own key-switching key, so it stays usable after the coefficient-domain key is deleted (and vice versa)
                int n3 = 2 + (int)(a % 9);
                LweParams *lp3 = new_LweParams(n3, 1e-9, 0.01); TLweParams *tp3 = new_TLweParams(N, 1, 1e-9, 0.01); TGswParams *gp3 = new_TGswParams(2, 8, tp3);
                LweKey *k3 = new_LweKey(lp3); lweKeyGen(k3); TGswKey *g3 = new_TGswKey(gp3); tGswKeyGen(g3);
                LweBootstrappingKey *bk3 = new_LweBootstrappingKey(2, 2, lp3, gp3);
                tfhe_createLweBootstrappingKey(bk3, k3, g3);
                LweBootstrappingKeyFFT *f3 = new_LweBootstrappingKeyFFT(bk3);
                LweSample *x = new_LweSample(lp3), *r = new_LweSample(lp3);
                lweSymEncrypt(x, 1 << 29, 1e-9, k3);
                if (b & 1) { delete_LweBootstrappingKey(bk3); tfhe_bootstrap_FFT(r, f3, 1 << 29, x); mixin(r->a, (size_t)n3 * 4); mixin(&r->b, 4); delete_LweBootstrappingKeyFFT(f3); }
                else { delete_LweBootstrappingKeyFFT(f3); tfhe_bootstrap(r, bk3, 1 << 29, x); mixin(&r->b, 4); delete_LweBootstrappingKey(bk3); }
                delete_LweSample(x); delete_LweSample(r); delete_TGswKey(g3); delete_LweKey(k3); delete_TGswParams(gp3); delete_TLweParams(tp3); delete_LweParams(lp3);
                break; }
        }
    }
    // --- release everything that is still alive, in the generated order
    const int order = (int)c["delorder"].i();
    auto del_wires = [&]() { if (order & 1) std::reverse(wires.begin(), wires.end()); for (auto *w : wires) delete_gate_bootstrapping_ciphertext(w); wires.clear(); };
    auto del_imp = [&]() { for (auto *k : imp_cloud) delete_gate_bootstrapping_cloud_keyset(k); for (auto *k : imp_secret) delete_gate_bootstrapping_secret_keyset(k); imp_cloud.clear(); imp_secret.clear(); };
    if (order & 2) { del_imp(); del_wires(); } else { del_wires(); del_imp(); }
    delete_gate_bootstrapping_secret_keyset(sk);
    delete_gate_bootstrapping_parameters(params);
    if (gp) delete_TGswParams(gp); if (tp) delete_TLweParams(tp); if (lp) delete_LweParams(lp);
    char hb[40]; snprintf(hb, sizeof hb, "DIGEST:%016llx", (unsigned long long)digest);
#if HAVE_LSAN
    if (__lsan_do_recoverable_leak_check()) return std::string("LeakSanitizer: memory allocated during this lifecycle is unreachable after every object was released through the matching deletion API (report on stderr)");
#endif
    return why.empty() ? std::string(hb) : why;
}
// each lifecycle runs in a forked child so that leaks (and crashes) are attributed to the case that causes them and shrink with it
static std::string run_forked(const J &c, std::string &sig) {
    std::string r = forked([&]() { std::string s2; std::string w = run_case(c, s2); return w.rfind("DIGEST:", 0) == 0 ? "\x01" + w : w; });
    sig = "c16/lifecycle";
    if (!r.empty() && r[0] == 1) { g_digests.push_back(r.substr(8)); return ""; }
    if (r.find("LeakSanitizer") != std::string::npos) sig = "c16/leak";
    else if (r.find("signal") != std::string::npos) sig = "c16/crash";
    if (r.empty()) r = "child exited without result";
    return r;
}

int main(int argc, char **argv) {
    Args A(argc, argv);
    Harness H(A, "c16");
    H.run_case = run_forked;
    H.nontrivial = [](const J &c) {
        const J &cf = c["cfg"];
        bool nondefault = !cf["lambda"].i() && (cf["n"].i() < 8 || cf["n"].i() > N || cf["k"].i() == 2 || cf["l"].i() * cf["Bgbit"].i() >= 30 || cf["Bgbit"].i() <= 2);
        bool special = false;
        for (auto &s : c["steps"].av) { int op = (int)(s[0].i() % S_COUNT); if (op == S_THREAD || op == S_IMPORT_CLOUD || op == S_IMPORT_SECRET || op == S_KEY2 || op == S_LOWLEVEL) special = true; }
        return nondefault || special;
    };
    H.classify = [](const J &c) { const J &cf = c["cfg"]; return cf["lambda"].i() ? std::string("default") + std::to_string(cf["lambda"].i()) : std::string("n") + (cf["n"].i() < 8 ? "<8" : cf["n"].i() > N ? ">N" : "mid") + "_k" + std::to_string(cf["k"].i()); };
    if (H.mode == "replay") { int r = H.replay(A.s("replay")); return r; }
    const int big = (int)A.i("big", 0), maxsteps = (int)A.i("maxsteps", 14);
    H.rc_loop("C16 API lifecycles are free of memory errors, leaks and uninitialised reads", [&]() {
        J c = J::object(), cf = J::object();
        int pick = *rng<int>(0, 19);
        if (pick == 0 && big) cf.set("lambda", *rc::gen::element<int>(80, 128));
        else {
            int n = big ? *rc::gen::element<int>(500, 630, 1024, 1025, 1100, 1025, 1031) : *rc::gen::weightedOneOf<int>({{5, rc::gen::element<int>(1, 3, 7, 8, 9)}, {2, rng<int>(2, 24)}});
            int k = *rc::gen::weightedElement<int>({{2, 1}, {1, 2}});
            int Bgbit = *rc::gen::weightedOneOf<int>({{4, rng<int>(1, 10)}, {1, rng<int>(11, 16)}});
            int l = *rc::gen::weightedOneOf<int>({{3, rng<int>(1, std::min(big ? 2 : 6, 32 / Bgbit))}, {1, rc::gen::just(std::min(big ? 2 : 8, 32 / Bgbit))}});
            int bb = *rng<int>(1, big ? 1 : 4);
            int t = *rng<int>(1, std::min(big ? 2 : 6, 31 / bb));
            while ((int64_t)k * N * t * (1 << bb) * (n + 1) > (big ? (1 << 24) : (1 << 22))) { if (t > 1) t--; else if (bb > 1) bb--; else break; }
            cf.set("lambda", 0).set("n", n).set("k", k).set("l", l).set("Bgbit", Bgbit).set("t", t).set("bb", bb);
        }
        c.set("cfg", cf).set("seed", *genSeed()).set("delorder", *rng<int>(0, 3));
        auto stepgen = rc::gen::map(rc::gen::tuple(rc::gen::weightedElement<int>({{3, S_ENC}, {6, S_GATE}, {2, S_BOOT}, {2, S_EXPORT_CT}, {2, S_EXPORT_CLOUD}, {1, S_EXPORT_SECRET}, {2, S_IMPORT_CLOUD}, {1, S_IMPORT_SECRET},
                                                                              {2, S_DELETE_CT}, {1, S_DELETE_IMPORTED}, {2, S_THREAD}, {1, S_PARAMS_IO}, {1, S_ARRAY}, {1, S_KEYSWITCH}, {1, S_DECRYPT}, {2, S_KEY2}, {1, S_LOWLEVEL}}),
                                                   rng<int>(0, 1000), rng<int>(0, 1 << 24), rng<int>(0, 1 << 24)),
                                    [](std::tuple<int, int, int, int> t) { return std::vector<int64_t>{std::get<0>(t), std::get<1>(t), std::get<2>(t), std::get<3>(t)}; });
        auto v = *rc::gen::resize(*rng<int>(2, maxsteps), rc::gen::container<std::vector<std::vector<int64_t>>>(stepgen));
        J steps = J::array();
        for (auto &s : v) { J e = J::arr(s); steps.push(e); }
        if (big) { // large dimensions are expensive: every such lifecycle also evaluates the three-input gate and one low-level bootstrap of each flavour
            steps.push(J::arr(std::vector<int64_t>{S_GATE, 10, *rng<int>(0, 1 << 24), *rng<int>(0, 7)}));
            steps.push(J::arr(std::vector<int64_t>{S_BOOT, *rng<int>(0, 15), *rng<int>(0, 1 << 24), *rng<int>(0, 1 << 24)}));
        }
        c.set("steps", steps);
        return c;
    });
    J dg = J::array();
    for (auto &d : g_digests) dg.push(d);
    H.R.extra.set("digests", dg);
    return H.finish();
}
