// C02 — circuits of any depth stay correct; gate output noise bounded and input-independent.
// Stateful/model-based: a netlist (vector of ops, every subsequence valid) is evaluated on
// ciphertexts and on a plaintext interpreter; every written wire is checked after every step.
// Phase errors of all bootstrapped outputs are accumulated as sufficient statistics (E5).
#include "hmain.hpp"
#include "gatelib.hpp"
using namespace vf;

struct Acc { double n = 0, s1 = 0, s2 = 0, mx = 0; void add(double e) { n++; s1 += e; s2 += e * e; if (std::fabs(e) > mx) mx = std::fabs(e); } };
static std::map<std::string, Acc> g_acc;
static bool g_collect = true;

// pseudo-ops (harness only): 100+k forges wire i1 to +-1/8 +- 1/32 (k=0: +, k=1: -), 110 re-encrypts wire i1 freshly
static std::string run_case(const J &c, std::string &sig) {
    sig = "c02/netlist";
    KeySet &K = get_keyset((int)c["lambda"].i(), (uint64_t)c["keyseed"].i());
    const LweKey *sk = K.sk->lwe_key;
    seed_lib((uint64_t)c["seed"].i(), 0xC02u);
    std::vector<int64_t> inbits = c["inputs"].ivec();
    if (inbits.empty()) inbits.push_back(0);
    const J &ops = c["ops"];
    const int maxw = (int)inbits.size() + (int)ops.size() + 1;
    LweSample *w = new_gate_bootstrapping_ciphertext_array(maxw, K.params);
    std::vector<int> bit(maxw, 0), depth(maxw, 0), forged(maxw, 0), trivial(maxw, 0);
    int nw = 0;
    for (int64_t b : inbits) { bootsSymEncrypt(w + nw, (int)(b & 1), K.sk); bit[nw] = (int)(b & 1); nw++; }
    std::string why;
    char buf[400];
    std::string keytag = std::to_string(K.lambda) + "/" + std::to_string(K.seed);
    for (size_t s = 0; s < ops.size() && why.empty(); s++) {
        const J &op = ops[s];
        int g = (int)op[0].i(), i1 = (int)(op[1].i() % nw), i2 = (int)(op[2].i() % nw), i3 = (int)(op[3].i() % nw);
        int64_t oraw = op[4].i();
        if (g >= 100) { // harness pseudo-op on wire i1
            if (g == 110) { bootsSymEncrypt(w + i1, bit[i1], K.sk); depth[i1] = 0; forged[i1] = 0; trivial[i1] = 0; }
            else { int32_t e = (g == 100 ? 1 : -1) * (1 << 27); forge_phase(w + i1, (bit[i1] ? MU8 : (uint32_t)0 - MU8) + (uint32_t)e, sk); forged[i1] = 1; }
            continue;
        }
        if (g < 0 || g >= G_COUNT) g = ((g % G_COUNT) + G_COUNT) % G_COUNT;
        int out = oraw < 0 ? nw : (int)(oraw % nw);
        int ar = GATES[g].arity;
        int cst = (int)(op[1].i() & 1);
        int want = g == G_CONSTANT ? cst : gate_truth(g, bit[i1], bit[i2], bit[i3]);
        int dmin = 1 << 30, dmax = 0, anyf = 0, alltriv = 1;
        for (int q = 0; q < ar && g != G_CONSTANT; q++) { int ix = q == 0 ? i1 : q == 1 ? i2 : i3; dmin = std::min(dmin, depth[ix]); dmax = std::max(dmax, depth[ix]); anyf |= forged[ix]; alltriv &= trivial[ix]; }
        gate_apply(g, w + out, w + i1, w + i2, w + i3, cst, K.ck);
        if (out == nw) nw++;
        bit[out] = want;
        if (g == G_CONSTANT) { depth[out] = 0; forged[out] = 0; trivial[out] = 1; }
        else if (g == G_NOT || g == G_COPY) { int d1 = depth[i1], f1 = forged[i1], t1 = trivial[i1]; depth[out] = d1; forged[out] = f1; trivial[out] = t1; }
        else { depth[out] = dmax + 1; forged[out] = 0; trivial[out] = 0; }
        // oracle 1: model-based, after every step
        int got = bootsSymDecrypt(w + out, K.sk);
        uint32_t ph = xphase(w + out, sk);
        double e = phase_err_of_bit(ph, want);
        if (got != want) {
            snprintf(buf, sizeof buf, "step %zu: %s wrote wire %d = %d, plaintext interpreter says %d (lambda=%d, input depths %d..%d, phase error %.5f)", s, GATES[g].name, out, got, want, K.lambda, dmin, dmax, e);
            why = buf; break;
        }
        if (gate_bootstrapped(g)) {
            if (std::fabs(e) >= 3.0 / 64) { snprintf(buf, sizeof buf, "step %zu: %s output phase error %.5f not below 3/64 (input depths %d..%d)", s, GATES[g].name, e, dmin, dmax); why = buf; break; }
            if (g_collect) {
                const char *gc = g == G_MUX ? "mux" : "bin";
                // all-trivial inputs (zero masks) skip the blind rotation altogether: legitimately less noise, kept apart from the independence test
                const char *ic = alltriv ? "trivialin" : anyf ? "forgedmax" : dmax == 0 ? "fresh" : dmin >= 50 ? "deep" : "mid";
                g_acc[std::string("st/") + std::to_string(K.lambda) + "/" + gc + "/" + ic].add(e);
                g_acc[std::string("km/") + keytag + "/" + gc].add(e);
            }
        }
    }
    // final scan: every live wire still decrypts to the model
    for (int i = 0; i < nw && why.empty(); i++)
        if (bootsSymDecrypt(w + i, K.sk) != bit[i]) { snprintf(buf, sizeof buf, "final scan: wire %d decrypts to %d, model says %d", i, 1 - bit[i], bit[i]); why = buf; }
    delete_gate_bootstrapping_ciphertext_array(maxw, w);
    return why;
}

static J op5(int g, int64_t a, int64_t b, int64_t c, int64_t o) { return J::arr(std::vector<int64_t>{g, a, b, c, o}); }

// structured families built by construction; `r` draws from the case seed so the family is a pure function of the descriptor
static J build_family(int fam, int size, uint64_t fseed, int ninputs) {
    SplitMix r(fseed);
    J ops = J::array();
    auto bing = [&]() { return (int)(r.next() % 10); };
    int nw = ninputs;
    switch (fam) {
        case 1: { // two interleaved chains x0 <- g(x0,x1), x1 <- g(x1,x0): depth = length, in place, every input deep after a while
            for (int i = 0; i < size; i++) {
                int o = i & 1;
                bool fresh_side = r.next() % 8 == 0 && nw > 2; // occasionally mix in a fresh wire
                ops.push(op5(r.next() % 7 == 0 ? G_MUX : bing(), o, fresh_side ? 2 + r.next() % (nw - 2) : 1 - o, r.next() & 1, o));
            }
            break;
        }
        case 2: { // balanced tree over fresh leaves, new wires
            std::vector<int> level;
            for (int i = 0; i < ninputs; i++) level.push_back(i);
            while (level.size() > 1 && (int)ops.size() < size) {
                std::vector<int> next;
                for (size_t i = 0; i + 1 < level.size(); i += 2) { ops.push(op5(bing(), level[i], level[i + 1], 0, -1)); next.push_back(nw++); }
                if (level.size() & 1) next.push_back(level.back());
                level = next;
            }
            break;
        }
        case 3: { // one wire fanned out to many gates
            for (int i = 0; i < size; i++) { ops.push(op5(bing(), 0, 1 + i % (ninputs > 1 ? ninputs - 1 : 1), 0, -1)); nw++; }
            break;
        }
        case 4: { // in-place accumulator acc <- acc XOR/AND/OR x_i, acc aliased with output and first input
            for (int i = 0; i < size; i++) ops.push(op5((int)(r.next() % 3 == 0 ? G_XOR : r.next() % 2 ? G_AND : G_OR), 0, 1 + i % (ninputs > 1 ? ninputs - 1 : 1), 0, 0));
            break;
        }
        case 5: { // ripple-carry adder on two halves of the inputs: sum_i = a_i^b_i^c, c = MUX(a_i^b_i, c, a_i)
            int h = ninputs / 2;
            ops.push(op5(G_CONSTANT, 0, 0, 0, -1)); int carry = nw++;
            for (int i = 0; i < h && (int)ops.size() < size; i++) {
                ops.push(op5(G_XOR, i, h + i, 0, -1)); int t = nw++;
                ops.push(op5(G_XOR, t, carry, 0, -1)); nw++;
                ops.push(op5(G_MUX, t, carry, i, -1)); carry = nw++;
            }
            break;
        }
        case 6: { // comparator a<b: lt = MUX(a_i XNOR b_i, lt, b_i)
            int h = ninputs / 2;
            ops.push(op5(G_CONSTANT, 0, 0, 0, -1)); int lt = nw++;
            for (int i = 0; i < h && (int)ops.size() < size; i++) {
                ops.push(op5(G_XNOR, i, h + i, 0, -1)); int t = nw++;
                ops.push(op5(G_MUX, t, lt, h + i, -1)); lt = nw++;
            }
            break;
        }
        case 7: { // multiplexer tree: selector wires 0..s-1, data the rest
            std::vector<int> level;
            int s = std::max(1, ninputs / 4);
            for (int i = s; i < ninputs; i++) level.push_back(i);
            int sel = 0;
            while (level.size() > 1 && (int)ops.size() < size) {
                std::vector<int> next;
                for (size_t i = 0; i + 1 < level.size(); i += 2) { ops.push(op5(G_MUX, sel % s, level[i], level[i + 1], -1)); next.push_back(nw++); }
                if (level.size() & 1) next.push_back(level.back());
                level = next; sel++;
            }
            break;
        }
        case 8: { // maximally noisy admissible inputs: forge both inputs to +-1/32 right before each gate
            for (int i = 0; i < size; i++) {
                int a = (int)(r.next() % ninputs), b = (int)(r.next() % ninputs), cc = (int)(r.next() % ninputs);
                ops.push(op5(100 + (int)(r.next() & 1), a, 0, 0, 0)); ops.push(op5(100 + (int)(r.next() & 1), b, 0, 0, 0)); ops.push(op5(100 + (int)(r.next() & 1), cc, 0, 0, 0));
                ops.push(op5(r.next() % 5 == 0 ? G_MUX : bing(), a, b, cc, -1));
                nw++;
                ops.push(op5(110, a, 0, 0, 0)); ops.push(op5(110, b, 0, 0, 0)); ops.push(op5(110, cc, 0, 0, 0));
            }
            break;
        }
        default: break;
    }
    return ops;
}

int main(int argc, char **argv) {
    Args A(argc, argv);
    Harness H(A, "c02");
    H.run_case = run_case;
    H.nontrivial = [](const J &c) { // contains a gate whose inputs are (both) gate outputs: approximated structurally
        std::vector<int> isout(c["inputs"].size() + c["ops"].size() + 2, 0);
        int nw = (int)c["inputs"].size(); if (nw == 0) nw = 1;
        for (auto &op : c["ops"].av) {
            int g = (int)op[0].i(); if (g >= 100) continue;
            if (g < 0 || g >= G_COUNT) g = ((g % G_COUNT) + G_COUNT) % G_COUNT;
            int i1 = (int)(op[1].i() % nw), i2 = (int)(op[2].i() % nw);
            if (gate_bootstrapped(g) && isout[i1] && (GATES[g].arity < 2 || isout[i2])) return true;
            int out = op[4].i() < 0 ? nw++ : (int)(op[4].i() % nw);
            if (gate_bootstrapped(g)) isout[out] = 1; else if (g == G_CONSTANT) isout[out] = 0; else isout[out] = isout[i1];
        }
        return false;
    };
    H.classify = [](const J &c) { return "family_" + std::to_string(c["family"].i()); };
    if (H.mode == "replay") { g_collect = false; return H.replay(A.s("replay")); }
    const uint64_t kbase = A.u("keybase", 1);
    const int nkeys = (int)A.i("keys", 1), maxops = (int)A.i("maxops", 120);
    const int only_lambda = (int)A.i("lambda", 0);
    uint64_t gates_done = 0;
    H.rc_loop("C02 netlists decrypt to the plaintext evaluation; every bootstrapped output within 3/64", [&]() {
        J c = J::object();
        int lambda = only_lambda ? only_lambda : *rc::gen::element<int>(128, 80);
        int fam = *rc::gen::weightedElement<int>({{4, 0}, {3, 1}, {1, 2}, {1, 3}, {2, 4}, {1, 5}, {1, 6}, {1, 7}, {3, 8}});
        if (A.has("family")) fam = (int)A.i("family");
        int nin = *rng<int>(2, 12);
        if (fam == 5 || fam == 6) nin = 2 * *rng<int>(1, 8);
        std::vector<int64_t> inputs;
        for (int i = 0; i < nin; i++) inputs.push_back(*rng<int>(0, 1));
        c.set("lambda", lambda).set("keyseed", kbase + (uint64_t)*rng<int>(0, nkeys - 1)).set("seed", *genSeed()).set("family", fam).set("inputs", J::arr(inputs));
        J ops;
        if (fam == 0) { // random netlist: every subsequence is valid, so rapidcheck's vector shrinking applies
            auto opgen = rc::gen::map(rc::gen::tuple(rc::gen::weightedOneOf<int>({{10, rng<int>(0, 9)}, {3, rc::gen::just<int>(G_MUX)}, {2, rng<int>(11, 13)}}), rng<int>(0, 1000), rng<int>(0, 1000), rng<int>(0, 1000),
                                                     rc::gen::weightedOneOf<int>({{3, rc::gen::just(-1)}, {2, rng<int>(0, 1000)}})),
                                      [](std::tuple<int, int, int, int, int> t) { return std::vector<int64_t>{std::get<0>(t), std::get<1>(t), std::get<2>(t), std::get<3>(t), std::get<4>(t)}; });
            auto v = *rc::gen::resize(*rng<int>(5, maxops), rc::gen::container<std::vector<std::vector<int64_t>>>(opgen));
            ops = J::array();
            for (auto &o : v) ops.push(J::arr(o));
        } else {
            int size = *rng<int>((int)A.i("minsize", 3), fam == 1 ? maxops * 2 : maxops);
            uint64_t fs = *genSeed();
            c.set("fsize", size).set("fseed", fs);
            ops = build_family(fam, size, fs, nin);
        }
        c.set("ops", ops);
        gates_done += ops.size();
        return c;
    });
    for (auto &p : g_acc) {
        H.R.stats[p.first + "/n"] = p.second.n; H.R.stats[p.first + "/s1"] = p.second.s1; H.R.stats[p.first + "/s2"] = p.second.s2; H.R.stats[p.first + "/mx"] = p.second.mx;
    }
    return H.finish();
}
