// C05 — export followed by import reproduces every object exactly, on both transports, alone or
// concatenated in one stream; re-export is byte-identical; a re-imported cloud key evaluates gates
// to bit-identical ciphertexts and a re-imported secret key decrypts / encrypts identically.
#include "hmain.hpp"
#include "iolib.hpp"
using namespace vf;

static bool representable8(double v) { char b[64]; snprintf(b, sizeof b, "%.8f", v); return strtod(b, nullptr) == v; }

static std::string functional_equiv(const IoObj *orig, const IoObj *imp, uint64_t seed) {
    // same gate sequence on the same ciphertexts under original and re-imported cloud key: byte-identical outputs
    const TFheGateBootstrappingSecretKeySet *sk = (const TFheGateBootstrappingSecretKeySet *)orig->p;
    const TFheGateBootstrappingCloudKeySet *c1 = &sk->cloud, *c2 = imp->type == T_CLOUD ? (const TFheGateBootstrappingCloudKeySet *)imp->p : &((const TFheGateBootstrappingSecretKeySet *)imp->p)->cloud;
    const int n = sk->params->in_out_params->n;
    LweSample *x = new_gate_bootstrapping_ciphertext_array(3, sk->params), *r1 = new_gate_bootstrapping_ciphertext(sk->params), *r2 = new_gate_bootstrapping_ciphertext(sk->params);
    seed_lib(seed, 0xC05u);
    SplitMix r(seed);
    std::string why;
    for (int i = 0; i < 3; i++) bootsSymEncrypt(x + i, (int)(r.next() & 1), sk);
    for (int q = 0; q < 6 && why.empty(); q++) {
        int g = (int)(r.next() % 11);
        gate_apply(g, r1, x, x + 1, x + 2, 0, c1);
        gate_apply(g, r2, x, x + 1, x + 2, 0, c2);
        if (memcmp(r1->a, r2->a, (size_t)n * 4) || r1->b != r2->b) why = std::string("gate ") + GATES[g].name + " gives different ciphertext bytes under the re-imported cloud key";
        lweCopy(x + (q % 3), r1, sk->params->in_out_params);
    }
    if (why.empty() && imp->type == T_SECRET) {
        const TFheGateBootstrappingSecretKeySet *s2 = (const TFheGateBootstrappingSecretKeySet *)imp->p;
        for (int i = 0; i < 3 && why.empty(); i++) if (bootsSymDecrypt(x + i, sk) != bootsSymDecrypt(x + i, s2)) why = "re-imported secret key decrypts differently";
        seed_lib(seed + 1, 0xC05u); bootsSymEncrypt(r1, 1, sk);
        seed_lib(seed + 1, 0xC05u); bootsSymEncrypt(r2, 1, s2);
        // the noise level used by encryption is a parameter that must survive the round trip
        if (why.empty() && (memcmp(r1->a, r2->a, (size_t)n * 4) || r1->b != r2->b)) why = "fresh encryption under the re-imported secret key differs from the original after reseeding (noise parameter or key changed)";
    }
    delete_gate_bootstrapping_ciphertext_array(3, x); delete_gate_bootstrapping_ciphertext(r1); delete_gate_bootstrapping_ciphertext(r2);
    return why;
}

static std::string run_case(const J &c, std::string &sig) {
    sig = "c05/roundtrip";
    const bool wfile = c["wfile"].i() != 0, rfile = c["rfile"].i() != 0;
    const bool ondisk = c["ondisk"].i() != 0; // read back through a real file (FILE* from fopen / std::ifstream) instead of an in-memory stream
    const J &descs = c["objs"];
    std::vector<IoObj *> built, imported;
    std::vector<std::string> bytes;
    std::string all, why;
    char buf[400];
    for (auto &d : descs.av) built.push_back(io_build(d));
    // one stream, objects back to back
    if (wfile && c["wdisk"].i()) { // export through a FILE* of a real file, then read the bytes back
        char wt[] = "/tmp/c05w-XXXXXX"; int wfd = mkstemp(wt); if (wfd < 0) { perror("mkstemp"); exit(3); }
        FILE *F = fdopen(wfd, "wb"); for (auto *o : built) io_export_file(o, F); fclose(F);
        std::ifstream rb(wt, std::ios::binary); std::stringstream ss; ss << rb.rdbuf(); all = ss.str(); unlink(wt);
    }
    else if (wfile) { char *b = nullptr; size_t len = 0; FILE *F = open_memstream(&b, &len); for (auto *o : built) io_export_file(o, F); fclose(F); all.assign(b, len); free(b); }
    else { std::ostringstream ss; for (auto *o : built) io_export_stream(o, ss); all = ss.str(); }
    for (auto *o : built) bytes.push_back(io_export_bytes(o, wfile));
    size_t total = 0;
    for (auto &b : bytes) total += b.size();
    if (total != all.size()) why = "concatenated export is not the concatenation of the individual exports";
    // the other transport writes the same bytes
    for (size_t i = 0; i < built.size() && why.empty(); i++) if (io_export_bytes(built[i], !wfile) != bytes[i]) { snprintf(buf, sizeof buf, "%s: FILE and stream exports differ", IONAME[built[i]->type]); why = buf; }
    if (why.empty()) {
        FILE *F = nullptr; std::istringstream SS(all); std::ifstream SF;
        char tmpl[] = "/tmp/c05-XXXXXX"; int tfd = -1;
        if (ondisk) { tfd = mkstemp(tmpl); if (tfd < 0 || write(tfd, all.data(), all.size()) != (ssize_t)all.size()) { perror("mkstemp"); exit(3); } close(tfd); }
        if (rfile) F = ondisk ? fopen(tmpl, "rb") : fmemopen((void *)all.data(), all.size(), "rb");
        else if (ondisk) SF.open(tmpl, std::ios::binary);
        std::istream &S = ondisk && !rfile ? static_cast<std::istream &>(SF) : static_cast<std::istream &>(SS);
        size_t pos = 0;
        for (size_t i = 0; i < built.size() && why.empty(); i++) {
            IoObj *im = io_import_any(built[i]->type, built[i], F, rfile ? nullptr : &S);
            imported.push_back(im);
            pos += bytes[i].size();
            long at = rfile ? ftell(F) : (long)S.tellg();
            if (!rfile && !S) { snprintf(buf, sizeof buf, "object %zu (%s): stream in failed state after import of a complete export", i, IONAME[built[i]->type]); why = buf; break; }
            if ((size_t)at != pos) { snprintf(buf, sizeof buf, "object %zu (%s): importer consumed up to offset %ld, the object ends at %zu", i, IONAME[built[i]->type], at, pos); why = buf; break; }
            std::string w = io_equal(built[i], im);
            if (!w.empty()) { snprintf(buf, sizeof buf, "object %zu (%s, %s -> %s): %s", i, IONAME[built[i]->type], wfile ? "FILE" : "stream", rfile ? "FILE" : "stream", w.c_str()); why = buf; sig = "c05/field/" + std::string(w.find("alpha") != std::string::npos ? "real-parameter" : "other"); break; }
            // idempotence: re-export of the imported object gives the first export's bytes
            for (int tr = 0; tr < 2 && why.empty(); tr++) if (io_export_bytes(im, tr) != bytes[i]) { snprintf(buf, sizeof buf, "object %zu (%s): re-export of the imported object differs from the first export", i, IONAME[built[i]->type]); why = buf; sig = "c05/reexport"; }
            if (why.empty() && (built[i]->type == T_CLOUD || built[i]->type == T_SECRET)) { why = functional_equiv(built[i], im, (uint64_t)c["fseed"].i()); if (!why.empty()) sig = "c05/functional"; }
        }
        if (F) fclose(F);
        if (ondisk) unlink(tmpl);
    }
    for (auto *o : imported) io_free_imported(o);
    for (auto *o : built) io_free(o);
    return why;
}

static double gen_real() { // full-precision reals spanning 1e-12 .. 0.5, plus the exact values the defaults use
    int pick = *rng<int>(0, 11);
    static const double LIST[] = {3.0517578125e-05 /*2^-15*/, 2.9802322387695312e-08 /*2^-25*/, 7.18e-9, 2.44e-5, 0.012467, 0.1, 0.3, 0.5, 1e-12};
    if (pick < 9) return LIST[pick];
    uint64_t m = *genSeed();
    int e = *rng<int>(1, 40);
    return std::ldexp((double)((m << 13) | 1) / 9007199254740992.0 + 0.5, -e); // in [2^-e/2, 2^-e), odd mantissa: never representable in 8 decimals
}

static J gen_obj(int forced_type = -1) {
    J d = J::object();
    int type = forced_type >= 0 ? forced_type : *rc::gen::weightedElement<int>({{3, 0}, {3, 1}, {2, 2}, {3, 3}, {2, 4}, {2, 5}, {3, 6}, {2, 7}, {2, 8}, {2, 9}, {2, 10}, {3, 11}, {1, 12}, {1, 13}, {2, 14}});
    d.set("type", type).set("name", IONAME[type]);
    bool keyset = type == T_CLOUD || type == T_SECRET;
    d.set("n", keyset ? *rng<int>(1, 3) : (type == T_KSKEY ? *rng<int>(1, 8) : type == T_BKKEY ? *rng<int>(1, 3) : *rc::gen::weightedOneOf<int>({{10, rng<int>(1, 40)}, {2, rng<int>(41, 700)}, {1, rng<int>(2040, 2600)}})));
    d.set("N", *rc::gen::weightedOneOf<int>({{5, rng<int>(1, 16)}, {2, rc::gen::element<int>(32, 64, 100, 1024)}, {1, rc::gen::element<int>(2048, 2047, 2049, 4096)}})); // single arrays of 8 KB and more (stdio buffer size)
    if (type == T_BKKEY || type == T_TGSWSAMPLE) d.set("N", *rc::gen::weightedOneOf<int>({{6, rng<int>(1, 16)}, {1, rc::gen::element<int>(256, 1024, 2048)}}));
    d.set("k", *rng<int>(1, keyset ? 1 : 3));
    int Bgbit = *rng<int>(1, keyset ? 8 : 16);
    d.set("Bgbit", Bgbit).set("l", *rng<int>(1, std::min(keyset ? 2 : 6, 32 / Bgbit)));
    int bb = *rng<int>(1, keyset ? 1 : 3);
    d.set("bb", bb).set("t", *rng<int>(1, keyset ? 2 : std::min(5, 31 / bb))).set("nout", *rng<int>(1, 20));
    d.set("amin", gen_real()).set("amax", gen_real()).set("amin2", gen_real()).set("amax2", gen_real());
    d.set("ckind", *rc::gen::weightedElement<int>({{5, 0}, {1, 1}, {1, 2}, {1, 3}, {1, 4}, {1, 6}})).set("seed", *genSeed());
    return d;
}

int main(int argc, char **argv) {
    Args A(argc, argv);
    Harness H(A, "c05");
    H.run_case = run_case;
    H.nontrivial = [](const J &c) {
        if (c["objs"].size() >= 2) return true;
        for (auto &d : c["objs"].av) for (const char *k : {"amin", "amax", "amin2", "amax2"}) if (!representable8(d[k].d())) return true;
        return false;
    };
    H.classify = [](const J &c) { return std::string(c["wfile"].i() ? "wFILE" : "wstream") + "_" + (c["rfile"].i() ? "rFILE" : "rstream") + (c["ondisk"].i() ? "-ondisk" : "") + (c["wfile"].i() && c["wdisk"].i() ? "_wdisk" : "") + (c["big"].i() ? "_array>=8KB" : "") + "_len" + std::to_string(c["objs"].size()); };
    if (H.mode == "replay") return H.replay(A.s("replay"));
    if (H.mode == "defaults") { // the two default parameter sets and one default-size key set per set, both transports
        uint64_t seed = A.u("seed", 1);
        for (int lambda : {128, 80}) for (int tr = 0; tr < 2; tr++) for (int type : {(int)T_GBPARAMS, (int)T_CLOUD, (int)T_SECRET}) {
            if (type != T_GBPARAMS && A.i("keys", 1) == 0) continue;
            if (type != T_GBPARAMS && tr != (lambda == 128 ? 0 : 1)) continue; // one transport per default-size key set (110 MB each)
            J d = J::object();
            bool l128 = lambda == 128;
            d.set("type", type).set("name", IONAME[type]).set("n", l128 ? 630 : 500).set("N", 1024).set("k", 1).set("l", l128 ? 3 : 2).set("Bgbit", l128 ? 7 : 10).set("t", 8).set("bb", 2).set("nout", 1);
            d.set("amin", l128 ? std::ldexp(1.0, -15) : 2.44e-5).set("amax", 0.012467).set("amin2", l128 ? std::ldexp(1.0, -25) : 7.18e-9).set("amax2", 0.012467).set("ckind", 0).set("seed", seed + lambda);
            J c = J::object();
            J objs = J::array(); objs.push(d);
            c.set("objs", objs).set("wfile", tr).set("rfile", tr).set("fseed", seed).set("ondisk", 1);
            H.exec(c);
        }
        return H.finish();
    }
    H.rc_loop("C05 export/import round trip reproduces every object exactly on both transports", [&]() {
        J c = J::object();
        int len = *rc::gen::weightedElement<int>({{3, 1}, {3, 2}, {2, 3}, {1, 4}, {1, 5}, {1, 6}});
        J objs = J::array();
        int keysets = 0;
        for (int i = 0; i < len; i++) { J d = gen_obj(); if ((d["type"].i() == T_CLOUD || d["type"].i() == T_SECRET) && ++keysets > 1) d = gen_obj(*rng<int>(0, 11)); objs.push(d); }
        int big = 0;
        for (auto &d : objs.av) { int ty = (int)d["type"].i(); bool usesN = (ty >= T_TLWEPARAMS && ty <= T_TGSWKEY) || ty == T_BKKEY; bool usesn = ty == T_LWESAMPLE || ty == T_LWEKEY || ty == T_GATECT; if ((usesN && d["N"].i() >= 2048 && ty != T_TLWEPARAMS && ty != T_TGSWPARAMS) || (usesn && d["n"].i() >= 2048)) big = 1; }
        c.set("big", big);
        c.set("objs", objs).set("wfile", *rng<int>(0, 1)).set("rfile", *rng<int>(0, 1)).set("fseed", *genSeed()).set("ondisk", *rc::gen::weightedElement<int>({{2, 0}, {1, 1}})).set("wdisk", *rc::gen::weightedElement<int>({{1, 0}, {1, 1}}));
        return c;
    });
    return H.finish();
}
