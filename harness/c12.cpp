// C12 — gadget decomposition: balanced digits that recompose to the input; input restored;
// every lane identical; guard pages around input and outputs (the AVX2 path is inline asm).
#include "hmain.hpp"
#include <tfhe.h>
using namespace vf;

struct Layout { int l, Bgbit; };

// spec check for one value: digits d[0..l) (d[p] multiplies 2^(32-(p+1)Bgbit))
static inline bool digits_ok(uint32_t x, const int32_t *d, int stride, int l, int Bgbit, std::string *why, int lane) {
    const int64_t half = (int64_t)1 << (Bgbit - 1);
    uint32_t rec = 0;
    for (int p = 0; p < l; p++) {
        int64_t dp = d[(size_t)p * stride];
        if (dp < -half || dp >= half) {
            if (why) { char b[200]; snprintf(b, sizeof b, "digit %d of value %u (lane %d) is %lld, outside [-%lld,%lld) (l=%d,Bgbit=%d)", p, x, lane, (long long)dp, (long long)half, (long long)half, l, Bgbit); *why = b; }
            return false;
        }
        rec += (uint32_t)dp << (32 - (p + 1) * Bgbit);
    }
    uint32_t diff = x - rec;
    int w = 32 - l * Bgbit;
    bool ok = w == 0 ? diff == 0 : diff < ((uint32_t)1 << w);
    if (!ok && why) { char b[200]; snprintf(b, sizeof b, "value %u (lane %d): x - recomposition = %u, must lie in [0,2^%d) (l=%d,Bgbit=%d)", x, lane, diff, w, l, Bgbit); *why = b; }
    return ok;
}

// boundary-biased content: lanes take values k*2^(32-p*Bgbit) - offset +- {0,1}, extremes, or random
static void fill_values(uint32_t *buf, int N, int l, int Bgbit, uint32_t offset, int kind, uint64_t seed) {
    SplitMix r(seed);
    if (kind != 9) { fill_torus(buf, N, kind, seed); return; }
    for (int j = 0; j < N; j++) {
        int sel = (int)(r.next() % 8);
        int p = 1 + (int)(r.next() % l);
        int sh = 32 - p * Bgbit;
        uint32_t kq = sh >= 32 ? 0 : (uint32_t)(r.next() << sh);
        int32_t d = (int32_t)(r.next() % 3) - 1;
        switch (sel) {
            case 0: case 1: case 2: buf[j] = kq - offset + d; break;   // digit boundary of the shifted value
            case 3: buf[j] = kq + d; break;                             // digit boundary of the raw value
            case 4: buf[j] = (uint32_t)d; break;                        // 0, +-1
            case 5: buf[j] = 0x80000000u + d; break;                    // MIN/MAX
            case 6: buf[j] = (uint32_t)0 - offset + d; break;           // carry out of the top
            default: buf[j] = r.u32();
        }
    }
}

static std::string run_case(const J &c, std::string &sig) {
    const std::string kindS = c["k"].s();
    sig = "c12/" + kindS;
    int l = (int)c["l"].i(), Bgbit = (int)c["Bgbit"].i(), N = (int)c["N"].i(), k = (int)c["kk"].i(1);
    bool tail = c["tail"].i(1) != 0;
    TLweParams *tp = new_TLweParams(N, k, 0., 1.);
    TGswParams *gp = new_TGswParams(l, Bgbit, tp);
    std::string why;
    if (kindS == "poly" || kindS == "lane") {
        TorusPolynomial *in = new_TorusPolynomial(N);
        IntPolynomial *res = new_IntPolynomial_array(l, N);
        GuardBuf gin((size_t)N * 4, tail);
        std::vector<std::unique_ptr<GuardBuf>> gout;
        Torus32 *save_in = in->coefsT;
        std::vector<int32_t *> save_out(l);
        in->coefsT = gin.as<Torus32>();
        for (int p = 0; p < l; p++) {
            gout.emplace_back(new GuardBuf((size_t)N * 4, tail));
            save_out[p] = res[p].coefs;
            res[p].coefs = gout[p]->as<int32_t>();
            memset(res[p].coefs, 0x5A, (size_t)N * 4);
        }
        std::vector<uint32_t> vals(N);
        fill_values(vals.data(), N, l, Bgbit, gp->offset, (int)c["content"]["kind"].i(), (uint64_t)c["content"]["seed"].i());
        if (kindS == "lane") vals[(size_t)c["pos"].i() % N] = (uint32_t)c["value"].i();
        memcpy(in->coefsT, vals.data(), (size_t)N * 4);
        tGswTorus32PolynomialDecompH(res, in, gp);
        if (memcmp(in->coefsT, vals.data(), (size_t)N * 4)) why = "input polynomial changed by the decomposition (offset not removed)";
        for (int j = 0; j < N && why.empty(); j++) {
            std::vector<int32_t> d(l);
            for (int p = 0; p < l; p++) d[p] = res[p].coefs[j];
            digits_ok(vals[j], d.data(), 1, l, Bgbit, &why, j);
        }
        if (why.empty() && kindS == "lane") { // same value alone in a different lane with different neighbours
            int pos2 = (int)((c["pos"].i() + 1 + c["shift"].i()) % N);
            std::vector<uint32_t> v2(N);
            fill_values(v2.data(), N, l, Bgbit, gp->offset, 0, (uint64_t)c["content"]["seed"].i() ^ 0x55aa);
            v2[pos2] = (uint32_t)c["value"].i();
            std::vector<int32_t> first(l);
            int pos1 = (int)(c["pos"].i() % N);
            for (int p = 0; p < l; p++) first[p] = res[p].coefs[pos1];
            memcpy(in->coefsT, v2.data(), (size_t)N * 4);
            tGswTorus32PolynomialDecompH(res, in, gp);
            for (int p = 0; p < l; p++)
                if (res[p].coefs[pos2] != first[p]) { char b[160]; snprintf(b, sizeof b, "digit %d of value %u differs between lane %d (%d) and lane %d (%d)", p, (uint32_t)c["value"].i(), pos1, first[p], pos2, res[p].coefs[pos2]); why = b; }
        }
        if (why.empty() && !gin.canary_ok()) why = "write outside the input polynomial (canary changed)";
        for (int p = 0; p < l && why.empty(); p++) if (!gout[p]->canary_ok()) why = "write outside a result polynomial (canary changed)";
        in->coefsT = save_in;
        for (int p = 0; p < l; p++) res[p].coefs = save_out[p];
        delete_IntPolynomial_array(l, res);
        delete_TorusPolynomial(in);
    } else if (kindS == "tlwe") {
        TLweSample *s = new_TLweSample(tp);
        IntPolynomial *res = new_IntPolynomial_array((k + 1) * l, N);
        std::vector<std::vector<uint32_t>> vals(k + 1, std::vector<uint32_t>(N));
        for (int i = 0; i <= k; i++) {
            fill_values(vals[i].data(), N, l, Bgbit, gp->offset, (int)c["content"]["kind"].i(), (uint64_t)c["content"]["seed"].i() + 77 * i);
            memcpy(s->a[i].coefsT, vals[i].data(), (size_t)N * 4);
        }
        for (int q = 0; q < (k + 1) * l; q++) memset(res[q].coefs, 0x5A, (size_t)N * 4);
        tGswTLweDecompH(res, s, gp);
        for (int i = 0; i <= k && why.empty(); i++) {
            if (memcmp(s->a[i].coefsT, vals[i].data(), (size_t)N * 4)) why = "TLWE input component changed by the decomposition";
            for (int j = 0; j < N && why.empty(); j++) {
                std::vector<int32_t> d(l);
                for (int p = 0; p < l; p++) d[p] = res[i * l + p].coefs[j];
                if (!digits_ok(vals[i][j], d.data(), 1, l, Bgbit, &why, j)) why = "component " + std::to_string(i) + ": " + why;
            }
        }
        delete_IntPolynomial_array((k + 1) * l, res);
        delete_TLweSample(s);
    } else why = "unknown kind";
    delete_TGswParams(gp);
    delete_TLweParams(tp);
    return why;
}

int main(int argc, char **argv) {
    Args A(argc, argv);
    Harness H(A, "c12");
    H.run_case = run_case;
    H.nontrivial = [](const J &c) { return c["content"]["kind"].i() == 9 || c["l"].i() * c["Bgbit"].i() == 32 || c["k"].s() == "lane"; };
    H.classify = [](const J &c) { return "kind_" + c["k"].s(); };
    if (H.mode == "replay") {
        J f = J::parse_file(A.s("replay"));
        if (f["case"]["k"].s() != "sweepfail") return H.replay(A.s("replay"));
    }
    if (H.mode == "sweep" || H.mode == "replay") { // all values in [lo,hi) for one layout, N=1024 lanes, rotating lane assignment
        int l, Bgbit; uint64_t lo, hi;
        if (H.mode == "replay") { J c = J::parse_file(A.s("replay"))["case"]; l = (int)c["l"].i(); Bgbit = (int)c["Bgbit"].i(); lo = (uint64_t)c["value"].i() & ~1023ull; hi = lo + 1024; }
        else { l = (int)A.i("l", 3); Bgbit = (int)A.i("Bgbit", 7); lo = A.u("lo", 0); hi = A.u("hi", 1ull << 32); }
        const int N = 1024;
        TLweParams *tp = new_TLweParams(N, 1, 0., 1.);
        TGswParams *gp = new_TGswParams(l, Bgbit, tp);
        TorusPolynomial *in = new_TorusPolynomial(N);
        IntPolynomial *res = new_IntPolynomial_array(l, N);
        std::vector<uint32_t> vals(N);
        const uint32_t off = gp->offset;
        const int w = 32 - l * Bgbit;
        uint64_t nontriv = 0;
        J cur = J::object(); cur.set("k", "sweep").set("l", l).set("Bgbit", Bgbit).set("lo", lo).set("hi", hi); set_current(cur);
        for (uint64_t base = lo; base < hi; base += N) {
            int rot = (int)((base / N) % N);
            for (int j = 0; j < N; j++) vals[(j + rot) % N] = (uint32_t)(base + j);
            memcpy(in->coefsT, vals.data(), N * 4);
            tGswTorus32PolynomialDecompH(res, in, gp);
            bool bad = memcmp(in->coefsT, vals.data(), N * 4) != 0;
            std::string why = bad ? "input polynomial changed by the decomposition" : "";
            for (int j = 0; j < N && !bad; j++) {
                int32_t d[32];
                for (int p = 0; p < l; p++) d[p] = res[p].coefs[j];
                uint32_t x = vals[j];
                if (!digits_ok(x, d, 1, l, Bgbit, nullptr, j)) { digits_ok(x, d, 1, l, Bgbit, &why, j); bad = true; }
                // non-trivial: the shifted value sits within 1 of a digit boundary (low w bits of x+off in {0, 2^w-1}) — or any value when w==0
                uint32_t t = x + off;
                uint32_t low = w ? (t & (((uint32_t)1 << w) - 1)) : 0;
                if (w == 0 || low == 0 || low == (((uint32_t)1 << w) - 1)) nontriv++;
                if (bad) {
                    J fc = J::object(); fc.set("k", "sweepfail").set("l", l).set("Bgbit", Bgbit).set("value", (uint64_t)x).set("lane", j);
                    H.R.fail(fc, why, "c12/sweep");
                }
            }
            if (bad && why.size() && H.R.failure_count == 0) { J fc = J::object(); fc.set("k", "sweepfail").set("l", l).set("Bgbit", Bgbit).set("value", base); H.R.fail(fc, why, "c12/sweep"); }
            H.R.evaluations += N;
            if (H.R.failure_count > 20) break;
        }
        H.R.exhaustive_nontrivial += nontriv;
        J s = J::object(); s.set("k", "sweep").set("l", l).set("Bgbit", Bgbit).set("lo", lo).set("hi", hi).set("lanes", N);
        H.R.note_sample(s);
        H.R.cls("sweep_l" + std::to_string(l) + "_Bgbit" + std::to_string(Bgbit), hi - lo);
        delete_IntPolynomial_array(l, res); delete_TorusPolynomial(in); delete_TGswParams(gp); delete_TLweParams(tp);
        if (H.mode == "replay") printf(H.R.failure_count ? "REPLAY-FAIL\n" : "REPLAY-PASS\n");
        return H.finish();
    }
    // rapidcheck: layout grid x N (multiples of 8) x content x lane tests x TLWE wrapper
    H.rc_loop("C12 gadget decomposition: balanced digits recompose, input restored, lanes identical", [&]() {
        int Bgbit = *rc::gen::weightedOneOf<int>({{3, rng<int>(1, 16)}, {1, rc::gen::element<int>(7, 10, 2, 16, 8, 4)}});
        int lmax = 32 / Bgbit;
        int l = *rc::gen::weightedOneOf<int>({{2, rng<int>(1, lmax)}, {1, rc::gen::just(lmax)}});
        int N = 8 * *rc::gen::weightedOneOf<int>({{3, rng<int>(1, 16)}, {1, rc::gen::element<int>(32, 64, 128)}});
        int which = *rng<int>(0, 9);
        J c = J::object();
        c.set("k", which < 5 ? "poly" : which < 8 ? "lane" : "tlwe").set("l", l).set("Bgbit", Bgbit).set("N", N);
        c.set("kk", *rng<int>(1, 2)).set("tail", *rng<int>(0, 1));
        J cont = J::object();
        cont.set("kind", *rc::gen::weightedElement<int>({{4, 9}, {3, 0}, {1, 1}, {1, 2}, {1, 3}, {1, 4}, {1, 6}})).set("seed", *genSeed());
        c.set("content", cont);
        if (c["k"].s() == "lane") {
            uint32_t off_guess = 0; // boundary-biased value: k*2^(32-p*Bgbit) +- 1 relative to the layout's offset
            { uint32_t t = 0; for (int i = 0; i < l; i++) t += (uint32_t)1 << (32 - (i + 1) * Bgbit); off_guess = t * ((uint32_t)1 << (Bgbit - 1)); }
            int p = *rng<int>(1, l);
            int sh = 32 - p * Bgbit;
            uint32_t kq = sh >= 32 ? 0 : (uint32_t)(*rc::gen::arbitrary<uint32_t>() << sh);
            int d = *rng<int>(-1, 1);
            uint32_t v = *rc::gen::oneOf(rc::gen::just<uint32_t>(kq - off_guess + d), rc::gen::arbitrary<uint32_t>(), rc::gen::element<uint32_t>(0u, 1u, 0xffffffffu, 0x80000000u, 0x7fffffffu));
            c.set("value", (uint64_t)v).set("pos", *rng<int>(0, N - 1)).set("shift", *rng<int>(0, N - 2));
        }
        return c;
    });
    return H.finish();
}
