// Shared harness support: tiny JSON, deterministic PRNG for *expanding* generated
// descriptors, report/evidence collection, crash-case recording, exact reference
// arithmetic.  All random *choices* come from rapidcheck generators (or from an
// explicit enumeration); SplitMix only expands a generated 64-bit content seed into
// bulk coefficient data, so a case is a pure function of what the generator drew.
#pragma once
#include <cstdint>
#include <cstdio>
#include <cstdlib>
#include <cstring>
#include <cmath>
#include <string>
#include <vector>
#include <map>
#include <unordered_set>
#include <functional>
#include <memory>
#include <sstream>
#include <fstream>
#include <iostream>
#include <csignal>
#include <unistd.h>
#include <fcntl.h>

namespace vf {

// ---------------------------------------------------------------- SplitMix64
struct SplitMix {
    uint64_t s;
    explicit SplitMix(uint64_t seed) : s(seed) {}
    uint64_t next() {
        uint64_t z = (s += 0x9E3779B97F4A7C15ull);
        z = (z ^ (z >> 30)) * 0xBF58476D1CE4E5B9ull;
        z = (z ^ (z >> 27)) * 0x94D049BB133111EBull;
        return z ^ (z >> 31);
    }
    uint32_t u32() { return (uint32_t)(next() >> 32); }
    int32_t i32() { return (int32_t)u32(); }
    // uniform in [lo,hi]
    int64_t range(int64_t lo, int64_t hi) {
        uint64_t span = (uint64_t)(hi - lo) + 1;
        if (span == 0) return (int64_t)next();
        return lo + (int64_t)(next() % span);
    }
    double unit() { return (next() >> 11) * (1.0 / 9007199254740992.0); }
};
inline uint64_t mix64(uint64_t a, uint64_t b) {
    SplitMix m(a ^ (b * 0x9E3779B97F4A7C15ull + 0x1234567));
    m.next();
    return m.next();
}
inline uint64_t hash_bytes(const void *p, size_t n, uint64_t h = 1469598103934665603ull) {
    const unsigned char *c = (const unsigned char *)p;
    for (size_t i = 0; i < n; i++) { h ^= c[i]; h *= 1099511628211ull; }
    return h;
}

// ---------------------------------------------------------------- JSON
struct J {
    enum T { NUL, BOOL, INT, DBL, STR, ARR, OBJ } t = NUL;
    int64_t iv = 0;
    double dv = 0;
    std::string sv;
    std::vector<J> av;
    std::vector<std::pair<std::string, J>> ov;
    J() {}
    J(bool b) : t(BOOL), iv(b) {}
    J(int v) : t(INT), iv(v) {}
    J(unsigned v) : t(INT), iv(v) {}
    J(long v) : t(INT), iv(v) {}
    J(long long v) : t(INT), iv(v) {}
    J(unsigned long v) : t(INT), iv((int64_t)v) {}
    J(unsigned long long v) : t(INT), iv((int64_t)v) {}
    J(double d) : t(DBL), dv(d) {}
    J(const char *s) : t(STR), sv(s) {}
    J(const std::string &s) : t(STR), sv(s) {}
    template <class X> static J arr(const std::vector<X> &v) {
        J j; j.t = ARR;
        for (auto &x : v) j.av.push_back(J(x));
        return j;
    }
    static J array() { J j; j.t = ARR; return j; }
    static J object() { J j; j.t = OBJ; return j; }
    J &set(const std::string &k, const J &v) {
        if (t != OBJ) { t = OBJ; ov.clear(); }
        for (auto &p : ov) if (p.first == k) { p.second = v; return *this; }
        ov.emplace_back(k, v);
        return *this;
    }
    J &push(const J &v) { if (t != ARR) { t = ARR; av.clear(); } av.push_back(v); return *this; }
    bool has(const std::string &k) const {
        for (auto &p : ov) if (p.first == k) return true;
        return false;
    }
    const J &operator[](const std::string &k) const {
        static J nul;
        for (auto &p : ov) if (p.first == k) return p.second;
        return nul;
    }
    const J &operator[](size_t i) const { return av[i]; }
    size_t size() const { return t == ARR ? av.size() : ov.size(); }
    int64_t i(int64_t def = 0) const { return t == INT || t == BOOL ? iv : t == DBL ? (int64_t)dv : def; }
    double d(double def = 0) const { return t == DBL ? dv : t == INT ? (double)iv : def; }
    const std::string &s() const { return sv; }
    std::vector<int64_t> ivec() const {
        std::vector<int64_t> r;
        for (auto &x : av) r.push_back(x.i());
        return r;
    }
    void dump(std::string &o) const {
        char buf[64];
        switch (t) {
            case NUL: o += "null"; break;
            case BOOL: o += iv ? "true" : "false"; break;
            case INT: snprintf(buf, sizeof buf, "%lld", (long long)iv); o += buf; break;
            case DBL:
                if (std::isfinite(dv)) { snprintf(buf, sizeof buf, "%.17g", dv); o += buf; }
                else o += "null";
                break;
            case STR:
                o += '"';
                for (unsigned char c : sv) {
                    if (c == '"' || c == '\\') { o += '\\'; o += c; }
                    else if (c < 0x20 || c >= 0x7f) { snprintf(buf, sizeof buf, "\\u%04x", c); o += buf; }
                    else o += c;
                }
                o += '"';
                break;
            case ARR:
                o += '[';
                for (size_t k = 0; k < av.size(); k++) { if (k) o += ','; av[k].dump(o); }
                o += ']';
                break;
            case OBJ:
                o += '{';
                for (size_t k = 0; k < ov.size(); k++) {
                    if (k) o += ',';
                    J(ov[k].first).dump(o);
                    o += ':';
                    ov[k].second.dump(o);
                }
                o += '}';
                break;
        }
    }
    std::string str() const { std::string o; dump(o); return o; }
    // ---- parser (subset sufficient for our own files)
    static void ws(const char *&p) { while (*p == ' ' || *p == '\n' || *p == '\t' || *p == '\r') p++; }
    static J parse(const char *&p) {
        ws(p);
        J j;
        if (*p == '{') {
            j.t = OBJ; p++; ws(p);
            if (*p == '}') { p++; return j; }
            while (true) {
                ws(p);
                J k = parse(p);
                ws(p);
                if (*p != ':') throw std::runtime_error("json: ':' expected");
                p++;
                J v = parse(p);
                j.ov.emplace_back(k.sv, v);
                ws(p);
                if (*p == ',') { p++; continue; }
                if (*p == '}') { p++; break; }
                throw std::runtime_error("json: ',' or '}' expected");
            }
        } else if (*p == '[') {
            j.t = ARR; p++; ws(p);
            if (*p == ']') { p++; return j; }
            while (true) {
                j.av.push_back(parse(p));
                ws(p);
                if (*p == ',') { p++; continue; }
                if (*p == ']') { p++; break; }
                throw std::runtime_error("json: ',' or ']' expected");
            }
        } else if (*p == '"') {
            j.t = STR; p++;
            while (*p && *p != '"') {
                if (*p == '\\') {
                    p++;
                    if (*p == 'u') { unsigned c = 0; sscanf(p + 1, "%4x", &c); j.sv += (char)c; p += 5; }
                    else if (*p == 'n') { j.sv += '\n'; p++; }
                    else if (*p == 't') { j.sv += '\t'; p++; }
                    else { j.sv += *p; p++; }
                } else j.sv += *p++;
            }
            if (*p == '"') p++;
        } else if (!strncmp(p, "true", 4)) { j.t = BOOL; j.iv = 1; p += 4; }
        else if (!strncmp(p, "false", 5)) { j.t = BOOL; j.iv = 0; p += 5; }
        else if (!strncmp(p, "null", 4)) { p += 4; }
        else {
            const char *q = p;
            bool isd = false;
            while (*q && (isdigit((unsigned char)*q) || *q == '-' || *q == '+' || *q == '.' || *q == 'e' || *q == 'E')) {
                if (*q == '.' || *q == 'e' || *q == 'E') isd = true;
                q++;
            }
            if (q == p) throw std::runtime_error(std::string("json: unexpected char ") + *p);
            std::string num(p, q);
            if (isd) { j.t = DBL; j.dv = strtod(num.c_str(), nullptr); }
            else { j.t = INT; j.iv = strtoll(num.c_str(), nullptr, 10); }
            p = q;
        }
        return j;
    }
    static J parse_str(const std::string &s) { const char *p = s.c_str(); return parse(p); }
    static J parse_file(const std::string &path) {
        std::ifstream f(path);
        std::stringstream ss; ss << f.rdbuf();
        return parse_str(ss.str());
    }
};

// ---------------------------------------------------------------- args
struct Args {
    std::map<std::string, std::string> kv;
    Args(int argc, char **argv) {
        for (int k = 1; k < argc; k++) {
            std::string a = argv[k];
            if (a.rfind("--", 0) == 0) {
                auto eq = a.find('=');
                if (eq != std::string::npos) kv[a.substr(2, eq - 2)] = a.substr(eq + 1);
                else if (k + 1 < argc && strncmp(argv[k + 1], "--", 2)) { kv[a.substr(2)] = argv[k + 1]; k++; }
                else kv[a.substr(2)] = "1";
            }
        }
    }
    bool has(const std::string &k) const { return kv.count(k); }
    std::string s(const std::string &k, const std::string &def = "") const { auto it = kv.find(k); return it == kv.end() ? def : it->second; }
    int64_t i(const std::string &k, int64_t def = 0) const { auto it = kv.find(k); return it == kv.end() ? def : strtoll(it->second.c_str(), nullptr, 0); }
    uint64_t u(const std::string &k, uint64_t def = 0) const { auto it = kv.find(k); return it == kv.end() ? def : strtoull(it->second.c_str(), nullptr, 0); }
    double d(const std::string &k, double def = 0) const { auto it = kv.find(k); return it == kv.end() ? def : strtod(it->second.c_str(), nullptr); }
};

// ---------------------------------------------------------------- crash-case recording
// The harness publishes the case it is about to run; if the process dies by a signal
// (assert/abort, SIGSEGV from a guard page, sanitizer abort) the handler writes it next
// to the report so the driver can replay exactly that case.
inline std::string &g_current_case() { static std::string *s = new std::string; return *s; } // never destroyed: the handler may run during exit
inline std::string &g_crash_path() { static std::string *s = new std::string; return *s; }
inline void crash_handler(int sig) {
    const std::string &p = g_crash_path();
    if (!p.empty()) {
        int fd = open(p.c_str(), O_WRONLY | O_CREAT | O_TRUNC, 0644);
        if (fd >= 0) {
            char hdr[64];
            int n = snprintf(hdr, sizeof hdr, "{\"signal\":%d,\"case\":", sig);
            (void)!write(fd, hdr, n);
            const std::string &c = g_current_case();
            if (c.empty()) (void)!write(fd, "null", 4);
            else (void)!write(fd, c.data(), c.size());
            (void)!write(fd, "}\n", 2);
            close(fd);
        }
    }
    signal(sig, SIG_DFL);
    raise(sig);
}
inline void install_crash_handler(const std::string &path) {
    g_crash_path() = path;
    for (int s : {SIGSEGV, SIGABRT, SIGBUS, SIGFPE, SIGILL}) signal(s, crash_handler);
}
inline void set_current(const J &c) { g_current_case().clear(); c.dump(g_current_case()); }

// ---------------------------------------------------------------- report
struct Report {
    uint64_t evaluations = 0;
    uint64_t nontrivial_total = 0;   // non-trivial evaluations, not de-duplicated
    uint64_t exhaustive_nontrivial = 0; // for enumerations: distinct by construction
    std::unordered_set<uint64_t> nontrivial;
    size_t cap = 400000;
    std::map<std::string, uint64_t> classes;
    std::map<std::string, double> stats;
    std::vector<J> samples_first, samples_res;
    std::vector<J> failures;
    uint64_t failure_count = 0;
    SplitMix res_rng{12345};
    uint64_t sample_seen = 0;
    J extra = J::object();

    void cls(const std::string &c, uint64_t n = 1) { classes[c] += n; }
    void note_sample(const J &c) {
        sample_seen++;
        if (samples_first.size() < 3) { samples_first.push_back(c); return; }
        if (samples_res.size() < 5) samples_res.push_back(c);
        else {
            uint64_t k = res_rng.next() % sample_seen;
            if (k < 5) samples_res[k] = c;
        }
    }
    // one executed case
    void note(const J &c, bool nontriv) {
        evaluations++;
        if (nontriv) {
            nontrivial_total++;
            if (nontrivial.size() < cap) { std::string s = c.str(); nontrivial.insert(hash_bytes(s.data(), s.size())); }
        }
        note_sample(c);
    }
    // cheap variant: caller supplies the hash of the case
    void note_hash(uint64_t h, bool nontriv) {
        evaluations++;
        if (nontriv) { nontrivial_total++; if (nontrivial.size() < cap) nontrivial.insert(h); }
    }
    void fail(const J &c, const std::string &why, const std::string &sig = "") {
        failure_count++;
        J f = J::object();
        f.set("case", c).set("why", why).set("sig", sig);
        if (failures.size() < 10) failures.push_back(f);
        else failures.back() = f; // keep the most recent (the shrunk one under rapidcheck)
    }
    void write(const std::string &path) const {
        J r = J::object();
        r.set("evaluations", evaluations);
        r.set("nontrivial_total", nontrivial_total);
        r.set("exhaustive_nontrivial", exhaustive_nontrivial);
        r.set("nontrivial_hashed", (uint64_t)nontrivial.size());
        J cl = J::object();
        for (auto &p : classes) cl.set(p.first, p.second);
        r.set("classes", cl);
        J st = J::object();
        for (auto &p : stats) st.set(p.first, p.second);
        r.set("stats", st);
        J sm = J::array();
        for (auto &s : samples_first) sm.push(s);
        for (auto &s : samples_res) sm.push(s);
        r.set("samples", sm);
        J fl = J::array();
        for (auto &f : failures) fl.push(f);
        r.set("failures", fl);
        r.set("failure_count", failure_count);
        r.set("extra", extra);
        std::string o = r.str();
        FILE *f = fopen((path + ".tmp").c_str(), "w");
        if (!f) { perror("report"); exit(3); }
        fwrite(o.data(), 1, o.size(), f);
        fclose(f);
        rename((path + ".tmp").c_str(), path.c_str());
        // hashes for cross-shard distinct counting
        FILE *h = fopen((path + ".hashes").c_str(), "wb");
        if (h) {
            std::vector<uint64_t> v(nontrivial.begin(), nontrivial.end());
            if (!v.empty()) fwrite(v.data(), 8, v.size(), h);
            fclose(h);
        }
    }
};

// ---------------------------------------------------------------- exact reference arithmetic
// negacyclic product r = a (int) * b (torus) mod X^N+1, mod 2^32
inline void ref_negacyclic(uint32_t *r, const int32_t *a, const uint32_t *b, int N) {
    std::vector<uint64_t> acc(N, 0);
    for (int i = 0; i < N; i++) {
        uint64_t ai = (uint64_t)(int64_t)a[i];
        if (!ai) continue;
        for (int j = 0; j < N - i; j++) acc[i + j] += ai * b[j];
        for (int j = N - i; j < N; j++) acc[i + j - N] -= ai * b[j];
    }
    for (int i = 0; i < N; i++) r[i] = (uint32_t)acc[i];
}
// X^a * p, a in [0,2N)
inline void ref_mulxai(uint32_t *r, int a, const uint32_t *p, int N) {
    for (int i = 0; i < N; i++) {
        int64_t e = (int64_t)i + a;
        e %= (2 * (int64_t)N);
        if (e < N) r[e] = p[i];
        else r[e - N] = (uint32_t)(0u - p[i]);
    }
}
// round-to-nearest modulus switch: returns r in [0,M); ok_lo/ok_hi receive the
// admissible set when phase sits exactly on a tie (both neighbours admissible)
inline bool modswitch_ok(uint32_t phase, uint32_t M, int64_t got) {
    if (got < 0 || got >= (int64_t)M) return false;
    // |M*phase - got*2^32| <= 2^31  modulo M*2^32
    __int128 x = (__int128)M * phase - ((__int128)got << 32);
    __int128 mod = (__int128)M << 32;
    x %= mod;
    if (x < 0) x += mod;
    if (x > mod / 2) x = mod - x;
    return x <= ((__int128)1 << 31);
}
inline int64_t ref_modswitch(uint32_t phase, uint32_t M) { // ties round up
    __int128 x = (__int128)M * phase + ((__int128)1 << 31);
    return (int64_t)((x >> 32) % M);
}

inline std::string hex32(const std::vector<uint32_t> &v) {
    std::string o;
    char b[16];
    for (auto x : v) { snprintf(b, sizeof b, "%08x", x); o += b; }
    return o;
}

// coefficient content descriptor -> data.  kind: 0 random(seed), 1 all INT32_MAX, 2 all INT32_MIN,
// 3 alternating MIN/MAX, 4 zero, 5 spike(seed%N index, value INT32_MIN), 6 all -1, 7 ramp, 8 alt MAX/MIN
inline void fill_torus(uint32_t *p, int N, int kind, uint64_t seed) {
    SplitMix r(seed);
    for (int i = 0; i < N; i++) {
        switch (kind) {
            case 0: p[i] = r.u32(); break;
            case 1: p[i] = 0x7fffffffu; break;
            case 2: p[i] = 0x80000000u; break;
            case 3: p[i] = (i & 1) ? 0x7fffffffu : 0x80000000u; break;
            case 4: p[i] = 0; break;
            case 5: p[i] = 0; break;
            case 6: p[i] = 0xffffffffu; break;
            case 7: p[i] = (uint32_t)((uint64_t)i * (0x100000000ull / (uint64_t)(N > 0 ? N : 1))); break;
            default: p[i] = (i & 1) ? 0x80000000u : 0x7fffffffu; break;
        }
    }
    if (kind == 5 && N > 0) p[seed % N] = 0x80000000u;
}
// integer polynomial with |coef| <= B; kind: 0 random, 1 all +B, 2 all -B, 3 alternating +-B,
// 4 spike at seed%N (value +-B), 5 sparse binary, 6 ramp, 7 zero, 8 binary random
inline void fill_int(int32_t *p, int N, int64_t B, int kind, uint64_t seed) {
    SplitMix r(seed);
    for (int i = 0; i < N; i++) {
        switch (kind) {
            case 0: p[i] = (int32_t)r.range(-B, B); break;
            case 1: p[i] = (int32_t)B; break;
            case 2: p[i] = (int32_t)-B; break;
            case 3: p[i] = (i & 1) ? (int32_t)-B : (int32_t)B; break;
            case 4: p[i] = 0; break;
            case 5: p[i] = (r.next() % 16 == 0) ? 1 : 0; break;
            case 6: p[i] = (int32_t)(-B + (2 * B * (int64_t)i) / (N > 1 ? N - 1 : 1)); break;
            case 7: p[i] = 0; break;
            default: p[i] = (int32_t)(r.next() & 1); break;
        }
    }
    if (kind == 4 && N > 0) p[seed % N] = (seed >> 40) & 1 ? (int32_t)-B : (int32_t)B;
}

} // namespace vf

// ---------------------------------------------------------------- guard-page buffers
// A harness-owned array placed flush against a PROT_NONE page (after its end when tail=true,
// before its start otherwise); the slack on the other side is filled with a canary pattern.
// Out-of-bounds accesses by hand-written assembly (invisible to sanitizers) become SIGSEGV or a
// changed canary.
#include <sys/mman.h>
namespace vf {
struct GuardBuf {
    unsigned char *base = nullptr;
    size_t total = 0, bytes = 0;
    unsigned char *ptr = nullptr;
    bool tail = true;
    GuardBuf(size_t nbytes, bool tail_) : bytes(nbytes), tail(tail_) {
        const size_t pg = 4096;
        size_t body = ((nbytes + pg - 1) / pg) * pg;
        if (body == 0) body = pg;
        total = body + 2 * pg;
        base = (unsigned char *)mmap(nullptr, total, PROT_READ | PROT_WRITE, MAP_PRIVATE | MAP_ANONYMOUS, -1, 0);
        if (base == MAP_FAILED) { perror("mmap"); exit(3); }
        memset(base + pg, 0xC7, body);
        mprotect(base, pg, PROT_NONE);
        mprotect(base + pg + body, pg, PROT_NONE);
        ptr = tail ? base + pg + body - nbytes : base + pg;
    }
    ~GuardBuf() { if (base) munmap(base, total); }
    GuardBuf(const GuardBuf &) = delete;
    // true when the slack bytes still hold the canary pattern
    bool canary_ok() const {
        const size_t pg = 4096;
        size_t body = total - 2 * pg;
        const unsigned char *b = base + pg;
        for (size_t i = 0; i < body; i++) {
            const unsigned char *q = b + i;
            if (q >= ptr && q < ptr + bytes) continue;
            if (*q != 0xC7) return false;
        }
        return true;
    }
    template <class T> T *as() { return (T *)ptr; }
};
} // namespace vf
