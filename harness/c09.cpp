// C09 — external product multiplies messages; blind rotation rotates by the secret exponent;
// the FFT-domain key is a faithful image of the coefficient-domain key.
#include "hmain.hpp"
#include "bklib.hpp"
using namespace vf;

static const int N = 1024, N2 = 2048;
typedef std::vector<uint32_t> Poly;
static const char *FN[] = {"ExternProduct", "ExternMulToTLwe", "FFTExternMulToTLwe", "FFTRoundTrip", "blindRotate_FFT", "blindRotate"};

static Poly mulint(const std::vector<int32_t> &a, const Poly &b) { Poly r(N); ref_negacyclic(r.data(), a.data(), b.data(), N); return r; }
static void addto(Poly &r, const Poly &x) { for (int i = 0; i < N; i++) r[i] += x[i]; }
static void subto(Poly &r, const Poly &x) { for (int i = 0; i < N; i++) r[i] -= x[i]; }
static int64_t maxabs(const Poly &a, const Poly &b, int *where) {
    int64_t m = 0;
    for (int i = 0; i < N; i++) { int64_t d = (int32_t)(a[i] - b[i]); if (d < 0) d = -d; if (d > m) { m = d; if (where) *where = i; } }
    return m;
}
// reference gadget decomposition of one polynomial: digits[p][j], remainder eps[j] = x - sum d_p h_p  (in [0, 2^(32-l*Bgbit)))
static void ref_decomp(const Poly &x, int l, int Bgbit, std::vector<std::vector<int32_t>> &dig, Poly &eps) {
    uint32_t offset = 0;
    for (int p = 0; p < l; p++) offset += (uint32_t)(1u << (Bgbit - 1)) << (32 - (p + 1) * Bgbit);
    dig.assign(l, std::vector<int32_t>(N));
    eps.assign(N, 0);
    for (int j = 0; j < N; j++) {
        uint32_t t = x[j] + offset, rec = 0;
        for (int p = 0; p < l; p++) {
            int32_t d = (int32_t)((t >> (32 - (p + 1) * Bgbit)) & ((1u << Bgbit) - 1)) - (1 << (Bgbit - 1));
            dig[p][j] = d;
            rec += (uint32_t)d << (32 - (p + 1) * Bgbit);
        }
        eps[j] = x[j] - rec;
    }
}

struct Ctx { // TGSW key + parameters for (k,l,Bgbit), seeded
    TLweParams *Pt; TGswParams *Pg; TGswKey *K; int k, l, Bgbit, kpl;
    std::vector<std::vector<int32_t>> s;
    Ctx(int k_, int l_, int Bgbit_, uint64_t seed) : k(k_), l(l_), Bgbit(Bgbit_) {
        Pt = new_TLweParams(N, k, 0., 1.); Pg = new_TGswParams(l, Bgbit, Pt); K = new_TGswKey(Pg);
        seed_lib(seed, 0xC09u); tGswKeyGen(K); kpl = (k + 1) * l;
        s.assign(k, std::vector<int32_t>(N));
        for (int j = 0; j < k; j++) memcpy(s[j].data(), K->tlwe_key.key[j].coefs, N * 4);
    }
    ~Ctx() { delete_TGswKey(K); delete_TGswParams(Pg); delete_TLweParams(Pt); }
    Poly phase(const std::vector<Poly> &c) const { Poly ph = c[k]; for (int j = 0; j < k; j++) subto(ph, mulint(s[j], c[j])); return ph; }
};

static void message(std::vector<int32_t> &m, int kind, uint64_t param) {
    m.assign(N, 0);
    SplitMix r(param);
    switch (kind) {
        case 0: break;
        case 1: m[0] = 1; break;
        case 2: m[0] = -1; break;
        case 3: m[param % N] = 1; break;
        default: for (int q = 0; q < 8; q++) m[r.next() % N] += (r.next() & 1) ? 1 : -1; break; // |m|_1 <= 8
    }
}

static std::string extern_case(const J &c) {
    const int k = (int)c["kk"].i(), l = (int)c["l"].i(), Bgbit = (int)c["Bgbit"].i(), fn = (int)c["f"].i();
    Ctx X(k, l, Bgbit, (uint64_t)c["keyseed"].i());
    const int kpl = X.kpl;
    std::vector<int32_t> m;
    message(m, (int)c["mkind"].i(), (uint64_t)c["mparam"].i());
    TGswSample *g = new_TGswSample(X.Pg);
    std::vector<std::vector<Poly>> rows(kpl, std::vector<Poly>(k + 1, Poly(N)));
    std::vector<Poly> rowerr(kpl, Poly(N, 0)); // exact noise of each row
    const bool libenc = c["rowkind"].i() == 1;
    if (libenc) {
        seed_lib((uint64_t)c["rowseed"].i(), 0xC09Au);
        IntPolynomial *mp = new_IntPolynomial(N);
        memcpy(mp->coefs, m.data(), N * 4);
        tGswSymEncrypt(g, mp, std::ldexp(1.0, -(int)c["alog"].i(25)), X.K);
        delete_IntPolynomial(mp);
        for (int p = 0; p < kpl; p++) for (int i = 0; i <= k; i++) memcpy(rows[p][i].data(), g->all_sample[p].a[i].coefsT, N * 4);
    } else { // exact noise-free rows written through the public structure
        SplitMix r((uint64_t)c["rowseed"].i());
        for (int p = 0; p < kpl; p++) {
            for (int i = 0; i < k; i++) for (int j = 0; j < N; j++) rows[p][i][j] = r.u32();
            std::fill(rows[p][k].begin(), rows[p][k].end(), 0);
            for (int i = 0; i < k; i++) addto(rows[p][k], mulint(X.s[i], rows[p][i]));
            int bloc = p / l, idx = p % l;
            uint32_t h = 1u << (32 - (idx + 1) * Bgbit);
            for (int j = 0; j < N; j++) rows[p][bloc][j] += (uint32_t)m[j] * h;
            for (int i = 0; i <= k; i++) memcpy(g->all_sample[p].a[i].coefsT, rows[p][i].data(), N * 4);
            g->all_sample[p].current_variance = 0;
        }
    }
    // exact row errors: phase(row) - message part
    for (int p = 0; p < kpl; p++) {
        Poly ph = X.phase(rows[p]);
        int bloc = p / l, idx = p % l;
        uint32_t h = 1u << (32 - (idx + 1) * Bgbit);
        Poly msg(N, 0);
        if (bloc == k) for (int j = 0; j < N; j++) msg[j] = (uint32_t)m[j] * h;
        else { Poly mh(N); for (int j = 0; j < N; j++) mh[j] = (uint32_t)m[j] * h; msg = mulint(X.s[bloc], mh); for (auto &v : msg) v = 0u - v; }
        for (int j = 0; j < N; j++) rowerr[p][j] = ph[j] - msg[j];
        if (!libenc) for (int j = 0; j < N; j++) if (rowerr[p][j] != 0) return "harness self-check: noise-free row has non-zero error";
        // rows made by tGswSymEncrypt must themselves encrypt m*h on the block diagonal with noise of stdev alpha (9 alpha + 16 units for rounding and
        // the FFT product a*s): otherwise a wrong row message would be absorbed into the measured error and oracle B would be an identity of the library with itself
        if (libenc) {
            const double lim = 9.0 * std::ldexp(1.0, 32 - (int)c["alog"].i(25)) + 16;
            for (int j = 0; j < N; j++) if (std::fabs((double)(int32_t)rowerr[p][j]) > lim) {
                char b2[300]; snprintf(b2, sizeof b2, "tGswSymEncrypt k=%d (l,Bgbit)=(%d,%d): row %d (block %d, level %d) coefficient %d is off its gadget message m*Bg^-%d by %d units, noise stdev 2^-%d = %.3g units",
                                       k, l, Bgbit, p, bloc, idx, j, idx + 1, (int32_t)rowerr[p][j], (int)c["alog"].i(25), std::ldexp(1.0, 32 - (int)c["alog"].i(25)));
                delete_TGswSample(g);
                return b2;
            }
        }
    }
    // TLWE input
    std::vector<Poly> cin(k + 1, Poly(N));
    for (int i = 0; i <= k; i++) fill_torus(cin[i].data(), N, (int)c["ckind"].i(), (uint64_t)c["cseed"].i() + 131 * i);
    TLweSample *tin = new_TLweSample(X.Pt), *tout = new_TLweSample(X.Pt);
    for (int i = 0; i <= k; i++) memcpy(tin->a[i].coefsT, cin[i].data(), N * 4);
    tin->current_variance = 0;
    std::string why;
    char buf[400];
    const int64_t Bg = 1ll << Bgbit;
    const int64_t T = 2 * kpl * std::max<int64_t>(1, Bg / 1024) + 2;
    if (fn == 3) { // FFT image round trip of the TGSW sample: within 1 unit per coefficient
        TGswSampleFFT *gf = new_TGswSampleFFT(X.Pg);
        TGswSample *back = new_TGswSample(X.Pg);
        tGswToFFTConvert(gf, g, X.Pg);
        tGswFromFFTConvert(back, gf, X.Pg);
        for (int p = 0; p < kpl && why.empty(); p++) for (int i = 0; i <= k && why.empty(); i++) {
            Poly b(N); memcpy(b.data(), back->all_sample[p].a[i].coefsT, N * 4);
            int w = 0; int64_t d = maxabs(b, rows[p][i], &w);
            if (d > 1) { snprintf(buf, sizeof buf, "tGswFromFFTConvert(tGswToFFTConvert(row %d component %d)) differs by %lld units at coefficient %d", p, i, (long long)d, w); why = buf; }
            if (memcmp(g->all_sample[p].a[i].coefsT, rows[p][i].data(), N * 4)) why = "tGswToFFTConvert modified its input";
        }
        delete_TGswSample(back); delete_TGswSampleFFT(gf);
    } else {
        TLweSample *res = tout;
        const bool inplace = fn == 0 && c["inplace"].i() != 0; // the TLWE sample c is also the output object (accumulator updated in place, as tGswExternMulToTLwe does by construction)
        if (inplace) { tGswExternProduct(tin, g, tin, X.Pg); res = tin; }
        else if (fn == 0) tGswExternProduct(tout, g, tin, X.Pg);
        else if (fn == 1) { tGswExternMulToTLwe(tin, g, X.Pg); res = tin; }
        else { TGswSampleFFT *gf = new_TGswSampleFFT(X.Pg); tGswToFFTConvert(gf, g, X.Pg); tGswFFTExternMulToTLwe(tin, gf, X.Pg); res = tin; delete_TGswSampleFFT(gf); }
        // oracle A: exact sum_p dec_p (*) row_p, coefficient-wise, key-independent
        std::vector<Poly> expect(k + 1, Poly(N, 0)), epsv(k + 1);
        for (int i = 0; i <= k; i++) {
            std::vector<std::vector<int32_t>> dig;
            ref_decomp(cin[i], l, Bgbit, dig, epsv[i]);
            for (int p = 0; p < l; p++) for (int q = 0; q <= k; q++) addto(expect[q], mulint(dig[p], rows[i * l + p][q]));
        }
        std::vector<Poly> got(k + 1, Poly(N));
        for (int i = 0; i <= k; i++) memcpy(got[i].data(), res->a[i].coefsT, N * 4);
        for (int i = 0; i <= k && why.empty(); i++) {
            int w = 0; int64_t d = maxabs(got[i], expect[i], &w);
            if (d > T) { snprintf(buf, sizeof buf, "%s k=%d (l,Bgbit)=(%d,%d): component %d coefficient %d differs from the exact sum_p dec_p*row_p by %lld units (allowed %lld)", FN[fn], k, l, Bgbit, i, w, (long long)d, (long long)T); why = buf; }
        }
        // oracle B: phase(result) = m * (phase(c) - (eps_b - sum_j s_j eps_aj)) + sum_p dec_p (*) rowerr_p
        if (why.empty()) {
            Poly inner = X.phase(cin);
            Poly epsterm = epsv[k];
            for (int j = 0; j < k; j++) subto(epsterm, mulint(X.s[j], epsv[j]));
            subto(inner, epsterm);
            Poly want = mulint(m, inner);
            if (libenc) for (int i = 0; i <= k; i++) { std::vector<std::vector<int32_t>> dig; Poly e; ref_decomp(cin[i], l, Bgbit, dig, e); for (int p = 0; p < l; p++) addto(want, mulint(dig[p], rowerr[i * l + p])); }
            Poly ph = X.phase(got);
            int64_t S1 = 1;
            for (int j = 0; j < k; j++) for (int i = 0; i < N; i++) S1 += X.s[j][i];
            int w = 0; int64_t d = maxabs(ph, want, &w);
            if (d > S1 * T) { snprintf(buf, sizeof buf, "%s k=%d (l,Bgbit)=(%d,%d) message kind %d: phase coefficient %d differs from m*phase(c) minus the truncation term by %lld units (allowed %lld)", FN[fn], k, l, Bgbit, (int)c["mkind"].i(), w, (long long)d, (long long)(S1 * T)); why = buf; }
        }
        if (why.empty() && fn == 0 && !inplace) for (int i = 0; i <= k; i++) if (memcmp(tin->a[i].coefsT, cin[i].data(), N * 4)) why = "tGswExternProduct left its TLWE input modified";
        for (int p = 0; p < kpl && why.empty(); p++) for (int i = 0; i <= k; i++) if (memcmp(g->all_sample[p].a[i].coefsT, rows[p][i].data(), N * 4)) why = "external product modified the TGSW sample";
    }
    delete_TLweSample(tin); delete_TLweSample(tout); delete_TGswSample(g);
    return why;
}

static std::string rotate_case(const J &c) {
    BCfg cfg = BCfg::from(c["cfg"]);
    BKey &K = get_bkey(cfg);
    const int n = cfg.n, k = cfg.k, fn = (int)c["f"].i();
    std::vector<std::vector<int32_t>> s(k, std::vector<int32_t>(N));
    for (int j = 0; j < k; j++) memcpy(s[j].data(), K.key_g->tlwe_key.key[j].coefs, N * 4);
    std::vector<Poly> acc(k + 1, Poly(N));
    for (int i = 0; i <= k; i++) fill_torus(acc[i].data(), N, (int)c["ckind"].i(), (uint64_t)c["cseed"].i() + 977 * i);
    if (c["trivial"].i()) for (int i = 0; i < k; i++) std::fill(acc[i].begin(), acc[i].end(), 0);
    TLweSample *t = new_TLweSample(K.Ptl);
    for (int i = 0; i <= k; i++) memcpy(t->a[i].coefsT, acc[i].data(), N * 4);
    t->current_variance = 0;
    std::vector<int32_t> bara(n);
    SplitMix r((uint64_t)c["baraseed"].i());
    int bk = (int)c["barakind"].i();
    for (int i = 0; i < n; i++) bara[i] = bk == 0 ? (int32_t)(r.next() % N2) : bk == 1 ? 0 : bk == 2 ? N2 - 1 : bk == 4 ? ((i & 1) ? 0 : N2 - 1) : 0;
    if (bk == 3) bara[r.next() % n] = (int32_t)(1 + r.next() % (N2 - 1));
    if (bk == 5) for (int i = 0; i < n; i++) bara[i] = (r.next() % 3 == 0) ? 0 : (int32_t)(r.next() % N2); // zeros interleaved (skipped steps)
    std::vector<int32_t> bcopy(bara);
    if (fn == 4) tfhe_blindRotate_FFT(t, K.bkFFT->bkFFT, bara.data(), n, K.Pg);
    else tfhe_blindRotate(t, K.bk->bk, bara.data(), n, K.Pg);
    int64_t e = 0; int steps = 0, executed = 0;
    for (int i = 0; i < n; i++) { if (bara[i]) executed++; if (K.key_in->key[i]) { e += bara[i]; if (bara[i]) steps++; } }
    e %= N2;
    auto phase = [&](const std::vector<Poly> &cc) { Poly ph = cc[k]; for (int j = 0; j < k; j++) subto(ph, mulint(s[j], cc[j])); return ph; };
    Poly ph0 = phase(acc), want(N);
    ref_mulxai(want.data(), (int)e, ph0.data(), N);
    std::vector<Poly> got(k + 1, Poly(N));
    for (int i = 0; i <= k; i++) memcpy(got[i].data(), t->a[i].coefsT, N * 4);
    Poly ph = phase(got);
    // tolerance: per executed step the truncation term (<= S1 * 2^(32-l*Bgbit) units, biased: linear accumulation allowed) + S1*T units of FFT rounding + the +-1 unit noise of each library row
    double S1 = 1;
    for (int j = 0; j < k; j++) for (int i = 0; i < N; i++) S1 += s[j][i];
    const int kpl = (k + 1) * cfg.l;
    const double T = 2 * kpl * std::max<double>(1, (1 << cfg.Bgbit) / 1024.0) + 2;
    const double rownoise = 12 * std::sqrt((double)kpl * N) * ((1 << cfg.Bgbit) / 3.46) * 2; // +-1 unit per row coefficient times the digits, 12 sigma
    const double tol = steps * S1 * std::ldexp(1.0, 32 - cfg.l * cfg.Bgbit) + executed * (S1 * T + rownoise) + 4; // CMux steps with key bit 0 still add FFT rounding and row noise
    if (tol > 4294967296.0 / 16) { delete_TLweSample(t); return "SKIP"; }
    std::string why;
    char buf[400];
    int w = 0; int64_t d = maxabs(ph, want, &w);
    if (d > tol) { snprintf(buf, sizeof buf, "%s n=%d k=%d (l,Bgbit)=(%d,%d): phase coefficient %d differs from X^(sum bara_i s_i = %lld) * phase(acc) by %lld units (allowed %.0f, %d executed steps)", FN[fn], n, k, cfg.l, cfg.Bgbit, w, (long long)e, (long long)d, tol, executed); why = buf; }
    if (why.empty() && bcopy != bara) why = "blind rotation modified the exponent array";
    delete_TLweSample(t);
    return why;
}

static std::string run_case(const J &c, std::string &sig) {
    int fn = (int)c["f"].i();
    sig = std::string("c09/") + FN[fn];
    return fn >= 4 ? rotate_case(c) : extern_case(c);
}

int main(int argc, char **argv) {
    Args A(argc, argv);
    Harness H(A, "c09");
    H.run_case = [&](const J &c, std::string &sig) { std::string w = run_case(c, sig); if (w == "SKIP") { H.R.cls("skipped_tolerance_too_wide"); return std::string(); } return w; };
    H.nontrivial = [](const J &c) {
        if (c["f"].i() >= 4) return c["barakind"].i() >= 2;
        return c["mkind"].i() >= 2 || c["ckind"].i() != 0;
    };
    H.classify = [](const J &c) { return std::string(FN[c["f"].i()]) + (c["inplace"].i() ? "_inplace" : "") + (c["f"].i() < 4 ? (c["rowkind"].i() ? "_noisy" : "_exact") : "") + ((c["f"].i() < 4 ? c["kk"].i() : c["cfg"]["k"].i()) == 2 ? "_k2" : ""); };
    if (H.mode == "replay") return H.replay(A.s("replay"));
    const uint64_t seed = A.u("seed", 1);
    const int nrot = (int)A.i("nrot", 40);
    H.rc_loop("C09 external product multiplies messages; blind rotation rotates by the secret exponent", [&]() {
        J c = J::object();
        int fn = *rc::gen::weightedElement<int>({{3, 0}, {3, 1}, {5, 2}, {1, 3}, {2, 4}, {1, 5}});
        int k = *rc::gen::weightedElement<int>({{3, 1}, {1, 2}});
        // valid gadget grid: digits must fit the FFT precision (Bgbit <= 10 as in the shipped sets, plus a few wider ones), l*Bgbit <= 32
        int Bgbit = *rc::gen::weightedOneOf<int>({{6, rng<int>(1, 10)}, {1, rng<int>(11, 16)}});
        int l = *rc::gen::weightedOneOf<int>({{3, rng<int>(1, std::min(32 / Bgbit, 8))}, {1, rc::gen::just(std::min(32 / Bgbit, 8))}});
        c.set("f", fn).set("fn", FN[fn]);
        if (fn == 0) c.set("inplace", *rc::gen::weightedElement<int>({{3, 0}, {1, 1}}));
        if (fn < 4) {
            c.set("kk", k).set("l", l).set("Bgbit", Bgbit).set("keyseed", seed + (uint64_t)*rng<int>(0, 3));
            c.set("mkind", *rc::gen::weightedElement<int>({{1, 0}, {2, 1}, {2, 2}, {3, 3}, {3, 4}})).set("mparam", *genSeed());
            c.set("rowkind", *rc::gen::weightedElement<int>({{3, 0}, {1, 1}})).set("rowseed", *genSeed()).set("alog", *rng<int>(15, 30));
            c.set("ckind", *rc::gen::weightedElement<int>({{5, 0}, {1, 1}, {1, 2}, {1, 3}, {1, 8}, {1, 6}})).set("cseed", *genSeed());
        } else {
            // blind rotation on a noise-free-ish key set (library rows with sigma ~ 0): precise gadget so that the analytic tolerance stays tiny
            int lb = *rc::gen::element<int>(0, 1, 2, 3);
            static const int LB[4][2] = {{3, 10}, {4, 8}, {3, 7}, {2, 10}};
            BCfg cfg; cfg.n = *rc::gen::weightedOneOf<int>({{3, rng<int>(1, 12)}, {2, rc::gen::just(nrot)}}); cfg.k = k; cfg.l = LB[lb][0]; cfg.Bgbit = LB[lb][1]; cfg.t = 2; cfg.bb = 1; cfg.seed = seed + (uint64_t)*rng<int>(0, 1);
            c.set("cfg", cfg.json()).set("ckind", *rc::gen::weightedElement<int>({{5, 0}, {1, 3}, {1, 7}})).set("cseed", *genSeed()).set("trivial", *rng<int>(0, 1));
            c.set("barakind", *rng<int>(0, 5)).set("baraseed", *genSeed());
        }
        return c;
    });
    return H.finish();
}
