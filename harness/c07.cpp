// C07 — fresh ciphertexts and key rows carry exactly the configured noise, fresh uniform masks,
// binary balanced keys; all randomness comes from the library generator (seeding, metamorphic).
// E5: the harness produces sufficient statistics of *exact* errors (phase - message computed with
// the secret keys in integer arithmetic, no FFT in the oracle); the driver applies 8-sigma tests.
#include "hmain.hpp"
#include "bklib.hpp"
#include <thread>
using namespace vf;

static const int N = 1024;
struct Mom { double n = 0, s1 = 0, s2 = 0, s4 = 0, mx = 0; void add(double e) { n++; s1 += e; double q = e * e; s2 += q; s4 += q * q; if (std::fabs(e) > mx) mx = std::fabs(e); } };
struct MaskStat {
    std::vector<double> bytes = std::vector<double>(256, 0), top4 = std::vector<double>(16, 0);
    double n = 0, sx = 0, sxx = 0; std::vector<double> lag = std::vector<double>(9, 0); std::vector<uint32_t> hist; std::unordered_set<uint32_t> seen; double words = 0;
    void add(uint32_t w) {
        for (int b = 0; b < 4; b++) bytes[(w >> (8 * b)) & 255]++;
        top4[w >> 28]++;
        double x = (double)(int32_t)w / 4294967296.0;
        for (size_t l = 1; l <= 8 && l <= hist.size(); l++) lag[l] += x * ((double)(int32_t)hist[hist.size() - l] / 4294967296.0);
        hist.push_back(w); if (hist.size() > 8) hist.erase(hist.begin());
        n++; sx += x; sxx += x * x; words++;
        if (seen.size() < 2000000) seen.insert(w);
    }
};
static Report *RP;
static void put(const std::string &key, const Mom &m) { RP->stats[key + "/n"] = m.n; RP->stats[key + "/s1"] = m.s1; RP->stats[key + "/s2"] = m.s2; RP->stats[key + "/s4"] = m.s4; RP->stats[key + "/mx"] = m.mx; }
static void putmask(const std::string &key, const MaskStat &m) {
    for (int i = 0; i < 256; i++) RP->stats[key + "/byte" + std::to_string(i)] = m.bytes[i];
    for (int i = 0; i < 16; i++) RP->stats[key + "/top" + std::to_string(i)] = m.top4[i];
    for (int l = 1; l <= 8; l++) RP->stats[key + "/lag" + std::to_string(l)] = m.lag[l];
    RP->stats[key + "/n"] = m.n; RP->stats[key + "/sx"] = m.sx; RP->stats[key + "/sxx"] = m.sxx; RP->stats[key + "/distinct"] = (double)m.seen.size(); RP->stats[key + "/words"] = std::min(m.words, 2000000.0);
}
static uint32_t tlwe_err0(const TLweSample *s, const std::vector<std::vector<int32_t>> &key, int k, std::vector<uint32_t> &ph) {
    ph.assign((uint32_t *)s->a[k].coefsT, (uint32_t *)s->a[k].coefsT + N);
    std::vector<uint32_t> tmp(N);
    for (int j = 0; j < k; j++) { ref_negacyclic(tmp.data(), key[j].data(), (const uint32_t *)s->a[j].coefsT, N); for (int i = 0; i < N; i++) ph[i] -= tmp[i]; }
    return ph[0];
}

// ---- seeding property (rapidcheck): same seed => same bytes whatever happened before; different seed => different
static uint64_t enc_hash(const LweKey *K, uint32_t msg, double alpha) { LweSample *s = new_LweSample(K->params); lweSymEncrypt(s, (int32_t)msg, alpha, K); uint64_t h = snap_lwe(s, K->params->n); delete_LweSample(s); return h; }
static void history(const J &h, const LweKey *K, const TLweKey *TK) {
    for (auto &op : h.av) {
        int o = (int)op.i() % 6;
        if (o == 0) enc_hash(K, 7, 1e-4);
        else if (o == 1) { LweKey *k2 = new_LweKey(K->params); lweKeyGen(k2); delete_LweKey(k2); }
        else if (o == 2) gaussian32(0, 1e-3);
        else if (o == 3) { TorusPolynomial *p = new_TorusPolynomial(N); torusPolynomialUniform(p); delete_TorusPolynomial(p); }
        else if (o == 4) { TLweSample *s = new_TLweSample(TK->params); tLweSymEncryptT(s, 5, 1e-5, TK); delete_TLweSample(s); }
        else { gaussian32(0, 1e-3); gaussian32(0, 1e-3); gaussian32(0, 1e-3); }
    }
}
static std::string seeding_case(const J &c) {
    const int n = (int)c["n"].i();
    LweParams *P = new_LweParams(n, 1e-4, 0.1); LweKey *K = new_LweKey(P);
    TLweParams *TP = new_TLweParams(N, 1, 1e-6, 0.1); TLweKey *TK = new_TLweKey(TP);
    uint64_t s = (uint64_t)c["s"].i(), s2 = (uint64_t)c["s2"].i();
    seed_lib(s, 0xC07u); lweKeyGen(K); tLweKeyGen(TK);
    std::string why;
    // (a) same seed, different histories before the re-seeding -> identical key + ciphertext, whichever thread draws
    uint64_t href = 0;
    const int thr = (int)c["thread"].i(); // 0: all on this thread; 1: second variant draws on a worker thread; 2: history on a worker thread too
    for (int v = 0; v < 2 && why.empty(); v++) {
        if (thr == 2 && v == 1) { std::thread t([&]() { history(c["h2"], K, TK); }); t.join(); } else history(c[v ? "h2" : "h1"], K, TK);
        seed_lib(s2, 0xC07u);
        uint64_t h = 0;
        auto draw = [&]() { LweKey *k2 = new_LweKey(P); lweKeyGen(k2); h = hash_words(k2->key, (size_t)n * 4, 1) ^ enc_hash(k2, 12345, 1e-4) ^ (enc_hash(k2, 12345, 1e-4) << 1); delete_LweKey(k2); };
        if (thr >= 1 && v == 1) { std::thread t(draw); t.join(); } else draw();
        if (v == 0) href = h; else if (h != href) why = thr ? "the generator is not process-global: seeding on one thread does not determine what another thread draws (same seed, different keys/ciphertexts)" : "re-seeding with the same seed after a different history gives different keys/ciphertexts";
    }
    if (why.empty() && thr) { // different seeds must give different draws on a worker thread as well
        uint64_t d[2];
        for (int v = 0; v < 2; v++) { seed_lib(s2 + 77 * v, 0xC07u); std::thread t([&]() { d[v] = enc_hash(K, 5, 1e-4); }); t.join(); }
        if (d[0] == d[1] && n >= 2) why = "a worker thread draws the same values whatever seed was set";
    }
    // (b) two encryptions of the same message differ; a different seed gives different output
    if (why.empty()) {
        seed_lib(s2, 0xC07u);
        uint64_t e1 = enc_hash(K, 99, 1e-4), e2 = enc_hash(K, 99, 1e-4);
        if (e1 == e2 && n >= 2) why = "two encryptions of the same message are identical";
        seed_lib(s2 + 1, 0xC07u);
        uint64_t e3 = enc_hash(K, 99, 1e-4);
        if (e3 == e1 && n >= 2) why = "a different seed reproduces the same ciphertext";
        seed_lib(s2, 0xC07u);
        if (enc_hash(K, 99, 1e-4) != e1) why = "re-seeding between two encryptions does not reproduce the first";
    }
    delete_TLweKey(TK); delete_TLweParams(TP); delete_LweKey(K); delete_LweParams(P);
    return why;
}

int main(int argc, char **argv) {
    Args A(argc, argv);
    Harness H(A, "c07");
    RP = &H.R;
    H.run_case = [](const J &c, std::string &sig) { sig = "c07/seeding"; return seeding_case(c); };
    H.nontrivial = [](const J &c) { return c["h1"].size() + c["h2"].size() > 0; };
    if (H.mode == "replay") return H.replay(A.s("replay"));
    const uint64_t seed = A.u("seed", 1);
    auto sample_desc = [&](const char *k) { J s = J::object(); s.set("mode", k).set("seed", seed); for (auto &kv : A.kv) if (kv.first != "out") s.set(kv.first, kv.second); H.R.note_sample(s); set_current(s); };
    if (H.mode == "seeding") {
        H.rc_loop("C07 all randomness comes from the library generator: seeding reproduces, differs, and is history independent", [&]() {
            J c = J::object();
            auto hist = rc::gen::container<std::vector<int>>(rng<int>(0, 5));
            c.set("thread", *rc::gen::weightedElement<int>({{3, 0}, {1, 1}, {1, 2}})).set("n", *rng<int>(1, 40)).set("s", *genSeed()).set("s2", *genSeed()).set("h1", J::arr(*rc::gen::resize(6, hist))).set("h2", J::arr(*rc::gen::resize(6, hist)));
            return c;
        });
        return H.finish();
    }
    if (H.mode == "keyset_seed") { // same seed => byte-identical key set and ciphertexts; different seed => different
        int lambda = (int)A.i("lambda", 128);
        uint64_t h[3];
        for (int v = 0; v < 3; v++) {
            seed_lib(seed + (v == 2 ? 1 : 0), 0xC07Bu);
            TFheGateBootstrappingParameterSet *p = new_default_gate_bootstrapping_parameters(lambda);
            TFheGateBootstrappingSecretKeySet *sk = new_random_gate_bootstrapping_secret_keyset(p);
            LweSample *ct = new_gate_bootstrapping_ciphertext(p);
            bootsSymEncrypt(ct, 1, sk);
            h[v] = snap_bk(sk->cloud.bk) ^ hash_words(sk->lwe_key->key, (size_t)p->in_out_params->n * 4, 5) ^ hash_words(sk->tgsw_key->key[0].coefs, N * 4, 6) ^ snap_lwe(ct, p->in_out_params->n);
            delete_gate_bootstrapping_ciphertext(ct); delete_gate_bootstrapping_secret_keyset(sk); delete_gate_bootstrapping_parameters(p);
        }
        J c = J::object(); c.set("mode", "keyset_seed").set("lambda", lambda).set("seed", seed);
        H.R.note(c, true);
        if (h[0] != h[1]) H.R.fail(c, "generating a key set twice with the same seed gives different keys or ciphertexts", "c07/seeding/keyset");
        if (h[0] == h[2]) H.R.fail(c, "different seeds give the same key set", "c07/seeding/keyset");
        return H.finish();
    }
    if (H.mode == "lwe") { // fresh LWE encryptions at a sweep of noise levels; exact errors; mask statistics
        sample_desc("lwe");
        const int n = (int)A.i("n", 12), M = (int)A.i("count", 100000);
        LweParams *P = new_LweParams(n, 0.001, 0.1); LweKey *K = new_LweKey(P); LweSample *s = new_LweSample(P);
        seed_lib(seed, 0xC07Cu); lweKeyGen(K);
        MaskStat ms;
        for (int e = (int)A.i("alo", 5); e <= (int)A.i("ahi", 30); e++) {
            double alpha = std::ldexp(1.0, -e);
            Mom m;
            for (int q = 0; q < M; q++) {
                uint32_t msg = (uint32_t)(q * 2654435761u);
                lweSymEncrypt(s, (int32_t)msg, alpha, K);
                uint32_t acc = 0;
                for (int i = 0; i < n; i++) acc += (uint32_t)s->a[i] * (uint32_t)K->key[i];
                m.add((double)(int32_t)((uint32_t)s->b - acc - msg));
                if (e == 15) for (int i = 0; i < n; i++) ms.add((uint32_t)s->a[i]);
                if (s->current_variance != alpha * alpha) { J c = J::object(); c.set("alpha_log2", -e); H.R.fail(c, "lweSymEncrypt does not annotate the variance alpha^2", "c07/variance-field"); q = M; }
            }
            put("lwe/2^-" + std::to_string(e), m);
            H.R.evaluations += M; H.R.exhaustive_nontrivial++;
        }
        putmask("mask/lwe", ms);
        delete_LweSample(s); delete_LweKey(K); delete_LweParams(P);
        return H.finish();
    }
    if (H.mode == "tlwe") { // TLWE / TGSW fresh encryptions (N=1024): every coefficient of the exact phase is an error sample
        sample_desc("tlwe");
        const int k = (int)A.i("kk", 1), M = (int)A.i("count", 20), l = (int)A.i("l", 2), Bgbit = (int)A.i("Bgbit", 8);
        TLweParams *P = new_TLweParams(N, k, 0.001, 0.1); TGswParams *G = new_TGswParams(l, Bgbit, P); TGswKey *GK = new_TGswKey(G);
        seed_lib(seed, 0xC07Du); tGswKeyGen(GK);
        std::vector<std::vector<int32_t>> key(k, std::vector<int32_t>(N));
        for (int j = 0; j < k; j++) memcpy(key[j].data(), GK->tlwe_key.key[j].coefs, N * 4);
        TLweSample *s = new_TLweSample(P); TGswSample *g = new_TGswSample(G);
        TorusPolynomial *msg = new_TorusPolynomial(N);
        std::vector<uint32_t> ph;
        MaskStat ms;
        for (int e = (int)A.i("alo", 10); e <= (int)A.i("ahi", 30); e += (int)A.i("astep", 5)) {
            double alpha = std::ldexp(1.0, -e);
            Mom m, mg, mt;
            for (int q = 0; q < M; q++) {
                for (int i = 0; i < N; i++) msg->coefsT[i] = (int32_t)(uint32_t)((q * 1024 + i) * 2654435761u);
                tLweSymEncrypt(s, msg, alpha, &GK->tlwe_key);
                tlwe_err0(s, key, k, ph);
                for (int i = 0; i < N; i++) m.add((double)(int32_t)(ph[i] - (uint32_t)msg->coefsT[i]));
                if (e == 15 || M < 4) for (int i = 0; i < N; i++) ms.add((uint32_t)s->a[0].coefsT[i]);
                tLweSymEncryptT(s, 1 << 29, alpha, &GK->tlwe_key);
                tlwe_err0(s, key, k, ph); ph[0] -= 1u << 29;
                for (int i = 0; i < N; i++) mt.add((double)(int32_t)ph[i]);
                if (q < (int)A.i("tgsw_count", 2)) {
                    tGswSymEncryptInt(g, 1, alpha, GK);
                    for (int p = 0; p < G->kpl; p++) {
                        tlwe_err0(&g->all_sample[p], key, k, ph);
                        int bloc = p / l; uint32_t h = (uint32_t)G->h[p % l];
                        if (bloc == k) ph[0] -= h; else for (int i = 0; i < N; i++) ph[i] += (uint32_t)key[bloc][i] * h; // message 1*h on a[bloc]: phase contribution -s_bloc*h
                        for (int i = 0; i < N; i++) mg.add((double)(int32_t)ph[i]);
                    }
                }
            }
            put("tlwe/2^-" + std::to_string(e), m); put("tlweT/2^-" + std::to_string(e), mt); put("tgsw/2^-" + std::to_string(e), mg);
            H.R.evaluations += (uint64_t)M * N; H.R.exhaustive_nontrivial++;
        }
        putmask("mask/tlwe", ms);
        delete_TorusPolynomial(msg); delete_TGswSample(g); delete_TLweSample(s); delete_TGswKey(GK); delete_TGswParams(G); delete_TLweParams(P);
        return H.finish();
    }
    if (H.mode == "keyset") { // default key set: gate-API encryptions, every key-switching row, every bootstrapping row coefficient, key bits
        sample_desc("keyset");
        int lambda = (int)A.i("lambda", 128);
        if (A.has("first")) { // another key set (other noise levels) is generated first in the same process: history of key generation must not matter
            TFheGateBootstrappingParameterSet *p0 = new_default_gate_bootstrapping_parameters((int)A.i("first"));
            seed_lib(seed + 99, 0xC07Eu);
            TFheGateBootstrappingSecretKeySet *k0 = new_random_gate_bootstrapping_secret_keyset(p0);
            LweSample *c0 = new_gate_bootstrapping_ciphertext(p0); bootsSymEncrypt(c0, 1, k0); delete_gate_bootstrapping_ciphertext(c0);
            delete_gate_bootstrapping_secret_keyset(k0); delete_gate_bootstrapping_parameters(p0);
        }
        KeySet &K = get_keyset(lambda, seed);
        const LweKey *sk = K.sk->lwe_key;
        const int n = K.n;
        const std::string tag = std::to_string(lambda);
        Mom mg;
        LweSample *ct = new_gate_bootstrapping_ciphertext(K.params);
        seed_lib(seed ^ 0x77, 0xC07Eu);
        for (int q = 0; q < (int)A.i("count", 20000); q++) { int b = q & 1; bootsSymEncrypt(ct, b, K.sk); mg.add((double)(int32_t)(xphase(ct, sk) - (b ? MU8 : (uint32_t)0 - MU8))); }
        put("gate/" + tag, mg);
        delete_gate_bootstrapping_ciphertext(ct);
        // key-switching key rows
        const LweKeySwitchKey *ks = K.ck->bk->ks;
        LweKey *ex = new_LweKey(&K.params->tgsw_params->tlwe_params->extracted_lweparams);
        tLweExtractKey(ex, &K.sk->tgsw_key->tlwe_key);
        Mom mk; MaskStat mm; double nontrivial_h0 = 0;
        for (int i = 0; i < ks->n; i++) for (int j = 0; j < ks->t; j++) for (int h = 0; h < ks->base; h++) {
            const LweSample *row = &ks->ks[i][j][h];
            if (h == 0) { bool z = row->b == 0; for (int p = 0; p < n && z; p++) z = row->a[p] == 0; if (!z) nontrivial_h0++; continue; }
            uint32_t msg = (uint32_t)(h * ex->key[i]) * ((uint32_t)1 << (32 - (j + 1) * ks->basebit));
            mk.add((double)(int32_t)(xphase(row, sk) - msg));
            if ((i & 15) == 0) for (int p = 0; p < n; p++) mm.add((uint32_t)row->a[p]);
        }
        put("ksrow/" + tag, mk); putmask("mask/ks" + tag, mm);
        H.R.stats["ksrow/" + tag + "/nontrivial_h0"] = nontrivial_h0;
        // bootstrapping key rows (exact phases: (k) negacyclic products per row)
        const TGswParams *G = K.params->tgsw_params; const int k = G->tlwe_params->k, l = G->l;
        std::vector<std::vector<int32_t>> key(k, std::vector<int32_t>(N));
        for (int j = 0; j < k; j++) memcpy(key[j].data(), K.sk->tgsw_key->key[j].coefs, N * 4);
        Mom mb; std::vector<uint32_t> ph;
        int rows_i = (int)A.i("bkrows", n);
        for (int i = 0; i < rows_i && i < n; i++) for (int p = 0; p < G->kpl; p++) {
            tlwe_err0(&K.ck->bk->bk[i].all_sample[p], key, k, ph);
            int bloc = p / l; uint32_t hm = (uint32_t)G->h[p % l] * (uint32_t)sk->key[i];
            if (bloc == k) ph[0] -= hm; else for (int x = 0; x < N; x++) ph[x] += (uint32_t)key[bloc][x] * hm;
            for (int x = 0; x < N; x++) mb.add((double)(int32_t)ph[x]);
        }
        put("bkrow/" + tag, mb);
        // keys: binary, weights
        double w = 0, bad = 0;
        for (int i = 0; i < n; i++) { w += sk->key[i]; if (sk->key[i] != 0 && sk->key[i] != 1) bad++; }
        double wr = 0;
        for (int j = 0; j < k; j++) for (int x = 0; x < N; x++) { wr += key[j][x]; if (key[j][x] != 0 && key[j][x] != 1) bad++; }
        H.R.stats["key/" + tag + "/lwe_weight"] = w; H.R.stats["key/" + tag + "/lwe_n"] = n; H.R.stats["key/" + tag + "/ring_weight"] = wr; H.R.stats["key/" + tag + "/ring_n"] = k * N; H.R.stats["key/" + tag + "/nonbinary"] = bad;
        H.R.evaluations += (uint64_t)mg.n + (uint64_t)mk.n + (uint64_t)mb.n; H.R.exhaustive_nontrivial += 3;
        delete_LweKey(ex);
        return H.finish();
    }
    if (H.mode == "kslayouts") { // key-switching keys made by lweCreateKeySwitchKey for small digit layouts (few rows per source coefficient): every row carries the configured noise
        sample_desc("kslayouts");
        static const int LAY[5][3] = {{1, 1, 15}, {2, 1, 16}, {1, 2, 17}, {3, 1, 18}, {2, 2, 19}}; // t, basebit, -log2(alpha): one noise level per layout (it names the statistic)
        const int nin = (int)A.i("nin", 8192), nout = (int)A.i("nout", 16);
        for (auto &L : LAY) {
            const int t = L[0], bb = L[1], base = 1 << bb;
            const double alpha = std::ldexp(1.0, -L[2]);
            LweParams *Pi = new_LweParams(nin, alpha, 1.), *Po = new_LweParams(nout, alpha, 1.);
            LweKey *Ki = new_LweKey(Pi), *Ko = new_LweKey(Po);
            seed_lib(seed + 31 * t + bb, 0xC07Fu);
            lweKeyGen(Ki); lweKeyGen(Ko);
            LweKeySwitchKey *ks = new_LweKeySwitchKey(nin, t, bb, Po);
            lweCreateKeySwitchKey(ks, Ki, Ko);
            Mom mk; double nontrivial_h0 = 0;
            for (int i = 0; i < nin; i++) for (int j = 0; j < t; j++) for (int h = 0; h < base; h++) {
                const LweSample *row = &ks->ks[i][j][h];
                if (h == 0) { bool z = row->b == 0; for (int p = 0; p < nout && z; p++) z = row->a[p] == 0; if (!z) nontrivial_h0++; continue; }
                uint32_t msg = (uint32_t)(h * Ki->key[i]) * ((uint32_t)1 << (32 - (j + 1) * bb));
                mk.add((double)(int32_t)(xphase(row, Ko) - msg));
            }
            const std::string tag = "2^-" + std::to_string(L[2]);
            put("ksrow/" + tag, mk);
            H.R.stats["ksrow/" + tag + "/nontrivial_h0"] = nontrivial_h0;
            H.R.evaluations += (uint64_t)mk.n; H.R.exhaustive_nontrivial += 1;
            delete_LweKeySwitchKey(ks); delete_LweKey(Ki); delete_LweKey(Ko); delete_LweParams(Pi); delete_LweParams(Po);
        }
        return H.finish();
    }
    if (H.mode == "keys") { // many key generations: entries in {0,1}, pooled weight
        sample_desc("keys");
        int cnt = (int)A.i("count", 256), n = (int)A.i("n", 630);
        LweParams *P = new_LweParams(n, 0.001, 0.1); LweKey *K = new_LweKey(P);
        TLweParams *TP = new_TLweParams(N, 2, 0.001, 0.1); TLweKey *TK = new_TLweKey(TP);
        seed_lib(seed, 0xC07Fu);
        double w = 0, tot = 0, bad = 0, wr = 0, totr = 0;
        std::unordered_set<uint64_t> distinct;
        for (int q = 0; q < cnt; q++) {
            lweKeyGen(K); tLweKeyGen(TK);
            for (int i = 0; i < n; i++) { w += K->key[i]; tot++; if (K->key[i] != 0 && K->key[i] != 1) bad++; }
            for (int j = 0; j < 2; j++) for (int x = 0; x < N; x++) { wr += TK->key[j].coefs[x]; totr++; if (TK->key[j].coefs[x] != 0 && TK->key[j].coefs[x] != 1) bad++; }
            distinct.insert(hash_words(K->key, (size_t)n * 4, 9));
        }
        H.R.stats["keys/lwe_weight"] = w; H.R.stats["keys/lwe_total"] = tot; H.R.stats["keys/ring_weight"] = wr; H.R.stats["keys/ring_total"] = totr; H.R.stats["keys/nonbinary"] = bad; H.R.stats["keys/distinct"] = (double)distinct.size(); H.R.stats["keys/count"] = cnt;
        H.R.evaluations += cnt; H.R.exhaustive_nontrivial++;
        delete_TLweKey(TK); delete_TLweParams(TP); delete_LweKey(K); delete_LweParams(P);
        return H.finish();
    }
    return 2;
}
