// E4 libFuzzer target for C14: bytes -> LWE/TLWE linear operation on small dimensions with explicit coefficients -> exact phase oracle of harness/c14.cpp
#define main c14_harness_main
#include "../c14.cpp"
#undef main
#include <fuzzer/FuzzedDataProvider.h>
extern "C" int LLVMFuzzerTestOneInput(const uint8_t *data, size_t size) {
    g_fork = false; // libFuzzer runs in-process; AddressSanitizer watches the C code
    FuzzedDataProvider fdp(data, size);
    J c = J::object();
    int which = fdp.ConsumeIntegralInRange<int>(0, 2);
    c.set("p", (int64_t)fdp.ConsumeIntegral<int32_t>()).set("tail", (int)fdp.ConsumeBool()).set("keykind", fdp.ConsumeIntegralInRange<int>(0, 3)).set("keyseed", (uint64_t)fdp.ConsumeIntegral<uint32_t>());
    c.set("vA", fdp.ConsumeIntegralInRange<int>(0, 1000)).set("vB", fdp.ConsumeIntegralInRange<int>(0, 1000));
    auto poly = [&](int n) { std::vector<int64_t> v(n); for (auto &x : v) x = fdp.ConsumeIntegral<int32_t>(); J j = J::object(); j.set("v", J::arr(v)); return j; };
    if (which == 0) {
        int n = fdp.ConsumeIntegralInRange<int>(1, 40);
        std::string op = LWE_OPS[fdp.ConsumeIntegralInRange<int>(0, 7)];
        c.set("k", "lwe").set("op", op).set("n", n).set("alias", (op == "Copy" || op == "Negate") ? (int)fdp.ConsumeBool() : 0).set("A", poly(n)).set("B", poly(n));
        c.set("bA", (uint64_t)fdp.ConsumeIntegral<uint32_t>()).set("bB", (uint64_t)fdp.ConsumeIntegral<uint32_t>());
    } else if (which == 1) {
        int N = fdp.ConsumeIntegralInRange<int>(2, 16);
        c.set("k", "tlwe").set("op", TLWE_OPS[fdp.ConsumeIntegralInRange<int>(0, 10)]).set("N", N).set("kk", fdp.ConsumeIntegralInRange<int>(1, 3)).set("A", poly(N)).set("B", poly(N));
        c.set("a", fdp.ConsumeIntegralInRange<int>(0, 2 * N - 1)).set("pos", fdp.ConsumeIntegralInRange<int>(0, 3)).set("x", (uint64_t)fdp.ConsumeIntegral<uint32_t>());
    } else {
        int N = fdp.ConsumeIntegralInRange<int>(1, 40);
        c.set("k", "extract").set("op", "ExtractIndex").set("N", N).set("kk", fdp.ConsumeIntegralInRange<int>(1, 3)).set("j", fdp.ConsumeIntegralInRange<int>(0, N - 1)).set("useplain", (int)fdp.ConsumeBool());
        c.set("A", kind(fdp.ConsumeIntegralInRange<int>(0, 8), fdp.ConsumeIntegral<uint32_t>()));
    }
    std::string sig, why = run_case(c, sig);
    if (!why.empty()) { fprintf(stderr, "C14 VIOLATION: %s\ncase: %s\n", why.c_str(), c.str().c_str()); __builtin_trap(); }
    return 0;
}
