// E4 libFuzzer target for C11: bytes -> (operation, N, a, b, p, explicit coefficient vectors) -> exact-reference oracle of harness/c11.cpp
#define main c11_harness_main
#include "../c11.cpp"
#undef main
#include <fuzzer/FuzzedDataProvider.h>
extern "C" int LLVMFuzzerTestOneInput(const uint8_t *data, size_t size) {
    FuzzedDataProvider fdp(data, size);
    int e = fdp.ConsumeIntegralInRange<int>(0, 7);
    int N = 1 << e;
    std::string op = OPS[fdp.ConsumeIntegralInRange<int>(0, NOPS - 1)];
    int a = fdp.ConsumeIntegralInRange<int>(0, 2 * N - 1), b = fdp.ConsumeIntegralInRange<int>(0, 2 * N - 1);
    int64_t p = fdp.ConsumeIntegral<int32_t>();
    auto poly = [&]() { std::vector<int64_t> v(N); for (auto &x : v) x = fdp.ConsumeIntegral<int32_t>(); J j = J::object(); j.set("v", J::arr(v)); return j; };
    J PA = poly(), PB = poly(), PC = poly();
    if (op == "NormSq2") PA = kind(fdp.ConsumeIntegralInRange<int>(0, 8), fdp.ConsumeIntegral<uint32_t>());
    J c = mkcase(op, N, a, b, p, PA, PB, PC);
    std::string sig, why = run_case(c, sig);
    if (!why.empty()) { fprintf(stderr, "C11 VIOLATION: %s\ncase: %s\n", why.c_str(), c.str().c_str()); __builtin_trap(); }
    return 0;
}
