// E4 libFuzzer target for C08: bytes -> (digit layout, dimensions, explicit mask coefficients) on a noise-free key -> exact phase identity of harness/c08.cpp
#define main c08_harness_main
#include "../c08.cpp"
#undef main
#include <fuzzer/FuzzedDataProvider.h>
extern "C" int LLVMFuzzerTestOneInput(const uint8_t *data, size_t size) {
    FuzzedDataProvider fdp(data, size);
    int bb = fdp.ConsumeIntegralInRange<int>(1, 8);
    int t = fdp.ConsumeIntegralInRange<int>(1, 31 / bb);
    int nin = fdp.ConsumeIntegralInRange<int>(1, 9), nout = fdp.ConsumeIntegralInRange<int>(1, 9);
    while ((int64_t)nin * t * (1 << bb) * (nout + 4) > (1 << 17)) { if (t > 1) t--; else bb--; }
    J c = J::object();
    c.set("k", "nf").set("t", t).set("basebit", bb).set("nin", nin).set("nout", nout).set("keyseed", (uint64_t)fdp.ConsumeIntegral<uint16_t>()).set("keykind", (int)fdp.ConsumeBool());
    c.set("maskseed", (uint64_t)fdp.ConsumeIntegral<uint32_t>()).set("maskkind", fdp.ConsumeIntegralInRange<int>(0, 2)).set("samples", 1).set("tail", (int)fdp.ConsumeBool()).set("alog", 20);
    std::vector<int64_t> a0;
    for (int i = 0; i < nin; i++) a0.push_back((int64_t)fdp.ConsumeIntegral<uint32_t>());
    c.set("a0", J::arr(a0));
    std::string sig, why = run_case(c, sig);
    if (!why.empty()) { fprintf(stderr, "C08 VIOLATION: %s\ncase: %s\n", why.c_str(), c.str().c_str()); __builtin_trap(); }
    return 0;
}
