// E4 libFuzzer target for C13: bytes -> (kind, M, phase / mu / shift) -> 128-bit rounding oracle of harness/c13.cpp
#define main c13_harness_main
#include "../c13.cpp"
#undef main
#include <fuzzer/FuzzedDataProvider.h>
extern "C" int LLVMFuzzerTestOneInput(const uint8_t *data, size_t size) {
    FuzzedDataProvider fdp(data, size);
    int kindsel = fdp.ConsumeIntegralInRange<int>(0, 3);
    uint32_t M = fdp.ConsumeBool() ? fdp.ConsumeIntegralInRange<uint32_t>(2, 32768) : (uint32_t)1 << fdp.ConsumeIntegralInRange<int>(1, 30);
    uint32_t x = fdp.ConsumeIntegral<uint32_t>();
    J c;
    if (kindsel == 0) c = mk("ms", M, x);
    else if (kindsel == 1) c = mk("enc", M, x % M);
    else if (kindsel == 2) c = mk("conv", x, 0);
    else c = mk("per", x, (uint64_t)(int64_t)fdp.ConsumeIntegralInRange<int32_t>(-(1 << 20), 1 << 20));
    std::string why = run_case(c);
    if (!why.empty()) { fprintf(stderr, "C13 VIOLATION: %s\ncase: %s\n", why.c_str(), c.str().c_str()); __builtin_trap(); }
    return 0;
}
