// E4 libFuzzer target for C12: bytes -> (layout, ring size, content descriptor or one explicit lane value) -> digit/recomposition oracle of harness/c12.cpp
#define main c12_harness_main
#include "../c12.cpp"
#undef main
#include <fuzzer/FuzzedDataProvider.h>
extern "C" int LLVMFuzzerTestOneInput(const uint8_t *data, size_t size) {
    FuzzedDataProvider fdp(data, size);
    int Bgbit = fdp.ConsumeIntegralInRange<int>(1, 16);
    int l = fdp.ConsumeIntegralInRange<int>(1, 32 / Bgbit);
    int N = 8 * fdp.ConsumeIntegralInRange<int>(1, 8);
    int which = fdp.ConsumeIntegralInRange<int>(0, 2);
    J c = J::object();
    c.set("k", which == 0 ? "poly" : which == 1 ? "lane" : "tlwe").set("l", l).set("Bgbit", Bgbit).set("N", N).set("kk", fdp.ConsumeIntegralInRange<int>(1, 2)).set("tail", (int)fdp.ConsumeBool());
    J cont = J::object();
    static const int KINDS[] = {9, 0, 1, 2, 3, 4, 6};
    cont.set("kind", KINDS[fdp.ConsumeIntegralInRange<int>(0, 6)]).set("seed", (uint64_t)fdp.ConsumeIntegral<uint32_t>());
    c.set("content", cont);
    if (which == 1) c.set("value", (uint64_t)fdp.ConsumeIntegral<uint32_t>()).set("pos", fdp.ConsumeIntegralInRange<int>(0, N - 1)).set("shift", fdp.ConsumeIntegralInRange<int>(0, N - 2));
    std::string sig, why = run_case(c, sig);
    if (!why.empty()) { fprintf(stderr, "C12 VIOLATION: %s\ncase: %s\n", why.c_str(), c.str().c_str()); __builtin_trap(); }
    return 0;
}
