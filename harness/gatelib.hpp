// Gate-level helpers shared by C01, C02, C04, C06, C15: seeded key sets, the 14 gates with their
// truth tables and affine forms, exact phases, forged (admissibly noisy) inputs, predicted rounded phase.
#pragma once
#include "common.hpp"
#include <tfhe.h>

namespace vf {

inline void seed_lib(uint64_t s, uint32_t tag = 0xC01u) {
    uint32_t v[4] = {(uint32_t)s, (uint32_t)(s >> 32), tag, (uint32_t)(s * 2654435761u)};
    tfhe_random_generator_setSeed(v, 4);
}

struct KeySet {
    TFheGateBootstrappingParameterSet *params;
    TFheGateBootstrappingSecretKeySet *sk;
    const TFheGateBootstrappingCloudKeySet *ck;
    int lambda, n;
    uint64_t seed;
};
inline std::map<std::pair<int, uint64_t>, KeySet> &keycache() { static std::map<std::pair<int, uint64_t>, KeySet> m; return m; }
inline KeySet &get_keyset(int lambda, uint64_t seed, size_t maxcache = 4) {
    auto key = std::make_pair(lambda, seed);
    auto &m = keycache();
    auto it = m.find(key);
    if (it != m.end()) return it->second;
    if (m.size() >= maxcache) {
        delete_gate_bootstrapping_secret_keyset(m.begin()->second.sk);
        delete_gate_bootstrapping_parameters(m.begin()->second.params);
        m.erase(m.begin());
    }
    seed_lib(seed, 0x6b657973u);
    KeySet k;
    k.params = new_default_gate_bootstrapping_parameters(lambda);
    k.sk = new_random_gate_bootstrapping_secret_keyset(k.params);
    k.ck = &k.sk->cloud;
    k.lambda = lambda; k.seed = seed; k.n = k.params->in_out_params->n;
    m[key] = k;
    return m[key];
}

// exact phase (uint32 wrap-around) under the LWE secret key, independent of lwePhase
inline uint32_t xphase(const LweSample *s, const LweKey *key) {
    const int n = key->params->n;
    uint32_t acc = 0;
    for (int i = 0; i < n; i++) acc += (uint32_t)s->a[i] * (uint32_t)key->key[i];
    return (uint32_t)s->b - acc;
}
static const uint32_t MU8 = 1u << 29; // 1/8

enum GateId { G_NAND, G_OR, G_AND, G_XOR, G_XNOR, G_NOR, G_ANDNY, G_ANDYN, G_ORNY, G_ORYN, G_MUX, G_NOT, G_COPY, G_CONSTANT, G_COUNT };
struct GateInfo {
    const char *name;
    int arity;
    // affine form of the internal linear combination: cst (in units of 1/8) + sa*scale*a + sb*scale*b
    int cst8, sa, sb, scale;
};
static const GateInfo GATES[G_COUNT] = {
    {"NAND", 2, +1, -1, -1, 1}, {"OR", 2, +1, +1, +1, 1}, {"AND", 2, -1, +1, +1, 1}, {"XOR", 2, +2, +1, +1, 2}, {"XNOR", 2, -2, -1, -1, 2},
    {"NOR", 2, -1, -1, -1, 1}, {"ANDNY", 2, -1, -1, +1, 1}, {"ANDYN", 2, -1, +1, -1, 1}, {"ORNY", 2, +1, -1, +1, 1}, {"ORYN", 2, +1, +1, -1, 1},
    {"MUX", 3, 0, 0, 0, 0}, {"NOT", 1, 0, 0, 0, 0}, {"COPY", 1, 0, 0, 0, 0}, {"CONSTANT", 1, 0, 0, 0, 0}};
inline int gate_truth(int g, int a, int b, int c) {
    switch (g) {
        case G_NAND: return !(a && b);
        case G_OR: return a || b;
        case G_AND: return a && b;
        case G_XOR: return a ^ b;
        case G_XNOR: return !(a ^ b);
        case G_NOR: return !(a || b);
        case G_ANDNY: return (!a) && b;
        case G_ANDYN: return a && (!b);
        case G_ORNY: return (!a) || b;
        case G_ORYN: return a || (!b);
        case G_MUX: return a ? b : c;
        case G_NOT: return !a;
        case G_COPY: return a;
        default: return a;
    }
}
inline void gate_apply(int g, LweSample *r, const LweSample *a, const LweSample *b, const LweSample *c, int constant, const TFheGateBootstrappingCloudKeySet *ck) {
    switch (g) {
        case G_NAND: bootsNAND(r, a, b, ck); break;
        case G_OR: bootsOR(r, a, b, ck); break;
        case G_AND: bootsAND(r, a, b, ck); break;
        case G_XOR: bootsXOR(r, a, b, ck); break;
        case G_XNOR: bootsXNOR(r, a, b, ck); break;
        case G_NOR: bootsNOR(r, a, b, ck); break;
        case G_ANDNY: bootsANDNY(r, a, b, ck); break;
        case G_ANDYN: bootsANDYN(r, a, b, ck); break;
        case G_ORNY: bootsORNY(r, a, b, ck); break;
        case G_ORYN: bootsORYN(r, a, b, ck); break;
        case G_MUX: bootsMUX(r, a, b, c, ck); break;
        case G_NOT: bootsNOT(r, a, ck); break;
        case G_COPY: bootsCOPY(r, a, ck); break;
        default: bootsCONSTANT(r, constant, ck); break;
    }
}
inline bool gate_bootstrapped(int g) { return g <= G_MUX; }

// harness-side rounding of a torus value to Z_2N, round half up
inline int round2N(uint32_t x, int N2) { return (int)((((uint64_t)x * (uint64_t)N2 + (1ull << 31)) >> 32) % (uint64_t)N2); }
// predicted rounded phase of the LWE sample (a,b) given as arrays, under key
inline int predict_p(const std::vector<uint32_t> &a, uint32_t b, const LweKey *key, int N2) {
    const int n = key->params->n;
    int64_t p = round2N(b, N2);
    for (int i = 0; i < n; i++) if (key->key[i]) p -= round2N(a[i], N2);
    p %= N2; if (p < 0) p += N2;
    return (int)p;
}
// the internal combination of a two-input gate, computed by the harness from the input ciphertexts
inline void gate_combination(int g, const LweSample *ca, const LweSample *cb, int n, std::vector<uint32_t> &a, uint32_t &b) {
    const GateInfo &G = GATES[g];
    a.resize(n);
    for (int i = 0; i < n; i++) a[i] = (uint32_t)(G.sa * G.scale) * (uint32_t)ca->a[i] + (uint32_t)(G.sb * G.scale) * (uint32_t)cb->a[i];
    b = (uint32_t)G.cst8 * MU8 + (uint32_t)(G.sa * G.scale) * (uint32_t)ca->b + (uint32_t)(G.sb * G.scale) * (uint32_t)cb->b;
}

// force the phase of ct (under sk) to exactly `target` by shifting b
inline void forge_phase(LweSample *ct, uint32_t target, const LweKey *key) {
    uint32_t ph = xphase(ct, key);
    ct->b = (int32_t)((uint32_t)ct->b + (target - ph));
}
// error magnitudes for forged inputs, in torus units; kind: 0 +1/32, 1 -1/32, 2 +(1/32 - 1 unit), 3 -(1/32 - 1 unit), 4 +1/64, 5 -1/64, 6 zero, 7 uniform in [-1/32,1/32] from seed
inline int32_t forge_error(int kind, uint64_t seed) {
    const int32_t E = 1 << 27; // 1/32
    switch (kind) {
        case 0: return E;
        case 1: return -E;
        case 2: return E - 1;
        case 3: return -(E - 1);
        case 4: return E / 2;
        case 5: return -E / 2;
        case 6: return 0;
        default: { SplitMix r(seed); return (int32_t)r.range(-(int64_t)E, (int64_t)E); }
    }
}
inline double phase_err_of_bit(uint32_t ph, int bit) { // signed distance from +-1/8 as a fraction of the torus
    uint32_t nominal = bit ? MU8 : (uint32_t)0 - MU8;
    return (double)(int32_t)(ph - nominal) / 4294967296.0;
}

} // namespace vf
