// C03 — decryption inverts encryption: gate API, LWE, TLWE (constant and polynomial), TGSW,
// trivial ciphertexts under any key.  E1 rapidcheck + E2 (all messages for small Msize).
#include "hmain.hpp"
#include <tfhe.h>
using namespace vf;

static void seed_lib(uint64_t s) {
    uint32_t v[4] = {(uint32_t)s, (uint32_t)(s >> 32), 0xC03u, (uint32_t)(s * 2654435761u)};
    tfhe_random_generator_setSeed(v, 4);
}
// alpha classes: 0 -> ~0 (1e-300), 1 -> 2^-30, 2 -> max/16, 3 -> max/2, 4 -> max (10 sigma margin)
static double alpha_of(int cls, double amax) {
    switch (cls) {
        case 0: return 1e-300;
        case 1: return std::min(amax, std::ldexp(1.0, -30));
        case 2: return amax / 16;
        case 3: return amax / 2;
        default: return amax;
    }
}
static std::map<std::pair<int, uint64_t>, TFheGateBootstrappingSecretKeySet *> g_keysets;
static TFheGateBootstrappingSecretKeySet *keyset(int lambda, uint64_t seed) {
    auto k = std::make_pair(lambda, seed);
    auto it = g_keysets.find(k);
    if (it != g_keysets.end()) return it->second;
    if (g_keysets.size() >= 2) { // bounded cache
        delete_gate_bootstrapping_secret_keyset(g_keysets.begin()->second);
        g_keysets.erase(g_keysets.begin());
    }
    seed_lib(seed);
    TFheGateBootstrappingParameterSet *p = new_default_gate_bootstrapping_parameters(lambda);
    TFheGateBootstrappingSecretKeySet *ks = new_random_gate_bootstrapping_secret_keyset(p);
    g_keysets[k] = ks;
    return ks;
}

static std::string run_case(const J &c, std::string &sig) {
    const std::string k = c["k"].s();
    sig = "c03/" + k;
    const int32_t M = (int32_t)c["M"].i();
    const uint64_t seed = (uint64_t)c["seed"].i();
    const int acls = (int)c["acls"].i();
    char buf[300];
    if (k == "gate") {
        TFheGateBootstrappingSecretKeySet *ks = keyset((int)c["lambda"].i(), (uint64_t)c["keyseed"].i());
        seed_lib(seed);
        LweSample *ct = new_gate_bootstrapping_ciphertext(ks->params);
        std::string why;
        for (int r = 0; r < (int)c["reps"].i(1) && why.empty(); r++)
            for (int b = 0; b < 2; b++) {
                bootsSymEncrypt(ct, b, ks);
                int d = bootsSymDecrypt(ct, ks);
                if (d != b) { snprintf(buf, sizeof buf, "bootsSymDecrypt(bootsSymEncrypt(%d)) = %d (lambda=%d, rep %d)", b, d, (int)c["lambda"].i(), r); why = buf; }
            }
        // trivial constant decrypts to its value
        for (int b = 0; b < 2 && why.empty(); b++) {
            bootsCONSTANT(ct, b, &ks->cloud);
            if (bootsSymDecrypt(ct, ks) != b) why = "bootsCONSTANT(" + std::to_string(b) + ") decrypts to the other bit";
        }
        delete_gate_bootstrapping_ciphertext(ct);
        return why;
    }
    if (k == "lwe" || k == "lwe_trivial") {
        const int n = (int)c["n"].i();
        LweParams *P = new_LweParams(n, 0., 1.);
        LweKey *K = new_LweKey(P);
        LweSample *s = new_LweSample(P);
        seed_lib(seed);
        lweKeyGen(K);
        std::string why;
        const double amax = 1.0 / (20.0 * M);
        const double alpha = alpha_of(acls, amax);
        std::vector<int64_t> msgs = c["msgs"].ivec();
        for (int64_t m : msgs) {
            Torus32 mu = modSwitchToTorus32((int32_t)m, M);
            if (k == "lwe") lweSymEncrypt(s, mu, alpha, K);
            else { lweNoiselessTrivial(s, mu, P); lweKeyGen(K); } // a fresh key for every trivial sample
            Torus32 d = lweSymDecrypt(s, K, M);
            if (d != mu) { snprintf(buf, sizeof buf, "%s n=%d Msize=%d alpha=%.3g: message %lld encodes to %d, decrypts to %d", k.c_str(), n, M, alpha, (long long)m, mu, d); why = buf; break; }
        }
        delete_LweSample(s); delete_LweKey(K); delete_LweParams(P);
        return why;
    }
    if (k == "tlwe_const" || k == "tlwe_poly" || k == "tlwe_trivial") {
        const int N = 1024, kk = (int)c["kk"].i();
        TLweParams *P = new_TLweParams(N, kk, 0., 1.);
        TLweKey *K = new_TLweKey(P);
        TLweSample *s = new_TLweSample(P);
        TorusPolynomial *msg = new_TorusPolynomial(N), *dec = new_TorusPolynomial(N);
        seed_lib(seed);
        tLweKeyGen(K);
        const double alpha = alpha_of(acls, 1.0 / (20.0 * M));
        std::string why;
        SplitMix r(seed ^ 0x7777);
        std::vector<int64_t> msgs = c["msgs"].ivec();
        if (k == "tlwe_const") {
            for (int64_t m : msgs) {
                Torus32 mu = modSwitchToTorus32((int32_t)m, M);
                tLweSymEncryptT(s, mu, alpha, K);
                Torus32 d = tLweSymDecryptT(s, K, M);
                if (d != mu) { snprintf(buf, sizeof buf, "tLweSymDecryptT k=%d Msize=%d alpha=%.3g: message %lld encodes to %d, decrypts to %d", kk, M, alpha, (long long)m, mu, d); why = buf; break; }
            }
        } else {
            std::vector<int32_t> mm(N);
            for (int j = 0; j < N; j++) mm[j] = (int32_t)(j < (int)msgs.size() ? msgs[j] : (int64_t)(r.next() % (uint64_t)M));
            for (int j = 0; j < N; j++) msg->coefsT[j] = modSwitchToTorus32(mm[j], M);
            if (k == "tlwe_poly") tLweSymEncrypt(s, msg, alpha, K);
            else { tLweNoiselessTrivial(s, msg, P); tLweKeyGen(K); }
            tLweSymDecrypt(dec, s, K, M);
            for (int j = 0; j < N; j++)
                if (dec->coefsT[j] != msg->coefsT[j]) { snprintf(buf, sizeof buf, "%s k=%d Msize=%d alpha=%.3g: coefficient %d message %d encodes to %d, decrypts to %d", k.c_str(), kk, M, alpha, j, mm[j], msg->coefsT[j], dec->coefsT[j]); why = buf; break; }
        }
        delete_TorusPolynomial(msg); delete_TorusPolynomial(dec); delete_TLweSample(s); delete_TLweKey(K); delete_TLweParams(P);
        return why;
    }
    if (k == "tgsw" || k == "tgsw_int" || k == "tgsw_trivial") {
        const int N = 1024, kk = (int)c["kk"].i(), l = (int)c["l"].i(), Bgbit = (int)c["Bgbit"].i();
        TLweParams *P = new_TLweParams(N, kk, 0., 1.);
        TGswParams *G = new_TGswParams(l, Bgbit, P);
        TGswKey *K = new_TGswKey(G);
        TGswSample *s = new_TGswSample(G);
        IntPolynomial *msg = new_IntPolynomial(N), *dec = new_IntPolynomial(N);
        seed_lib(seed);
        tGswKeyGen(K);
        // decryption forms sum_i d_i * phase(row_i) with d = balanced gadget digits of 1/Msize, so the row noise is multiplied by |d|_2:
        // the decryptable maximum (10 sigma) is 1/(20 Msize |d|_2) -- e.g. |d|_2 = 1 for Msize = Bg, Bg/2 for Msize = 2
        double dnorm2 = 0;
        {
            uint32_t x = (uint32_t)(4294967296.0 / M), t = x + (uint32_t)G->offset;
            for (int p = 0; p < l; p++) { int32_t dg = (int32_t)((t >> (32 - (p + 1) * Bgbit)) & (uint32_t)(G->Bg - 1)) - G->Bg / 2; dnorm2 += (double)dg * dg; }
        }
        const double amax = 1.0 / (20.0 * M * std::sqrt(std::max(dnorm2, 1.0)));
        const double alpha = alpha_of(acls, amax);
        SplitMix r(seed ^ 0x9999);
        std::vector<int64_t> msgs = c["msgs"].ivec();
        std::string why;
        for (int j = 0; j < N; j++) msg->coefs[j] = (k == "tgsw_int") ? 0 : (int32_t)(j < (int)msgs.size() ? msgs[j] : (int64_t)(r.next() % (uint64_t)M));
        if (k == "tgsw_int") msg->coefs[0] = (int32_t)(msgs.empty() ? 1 : msgs[0]);
        if (k == "tgsw") tGswSymEncrypt(s, msg, alpha, K);
        else if (k == "tgsw_int") tGswSymEncryptInt(s, msg->coefs[0], alpha, K);
        else { tGswNoiselessTrivial(s, msg, G); tGswKeyGen(K); }
        tGswSymDecrypt(dec, s, K, M);
        for (int j = 0; j < N; j++)
            if (dec->coefs[j] != msg->coefs[j]) { snprintf(buf, sizeof buf, "%s k=%d l=%d Bgbit=%d Msize=%d alpha=%.3g: coefficient %d message %d decrypts to %d", k.c_str(), kk, l, Bgbit, M, alpha, j, msg->coefs[j], dec->coefs[j]); why = buf; break; }
        delete_IntPolynomial(msg); delete_IntPolynomial(dec); delete_TGswSample(s); delete_TGswKey(K); delete_TGswParams(G); delete_TLweParams(P);
        return why;
    }
    return "unknown kind";
}

static bool pow2(int64_t m) { return (m & (m - 1)) == 0; }

int main(int argc, char **argv) {
    Args A(argc, argv);
    Harness H(A, "c03");
    H.run_case = run_case;
    H.nontrivial = [](const J &c) { return (c["acls"].i() >= 3 && c["k"].s().find("trivial") == std::string::npos) || !pow2(c["M"].i()); };
    H.classify = [](const J &c) { return c["k"].s() + "_a" + std::to_string(c["acls"].i()); };
    if (H.mode == "replay") return H.replay(A.s("replay"));
    if (H.mode == "allmsg") { // every message of every Msize in [2,64] (and the listed larger ones' extremes), LWE and TLWE constant, max noise
        uint64_t seed = A.u("seed", 1);
        for (int M = 2; M <= 64; M++)
            for (int acls : {0, 4}) {
                std::vector<int64_t> all;
                for (int m = 0; m < M; m++) all.push_back(m);
                for (int n : {1, 7, 500}) {
                    J c = J::object();
                    c.set("k", "lwe").set("n", n).set("M", M).set("acls", acls).set("seed", seed + M * 31 + n).set("msgs", J::arr(all));
                    H.exec(c, false);
                }
                J c = J::object();
                c.set("k", "tlwe_const").set("kk", 1 + M % 2).set("M", M).set("acls", acls).set("seed", seed + M * 37).set("msgs", J::arr(all));
                H.exec(c, false);
                J d = J::object();
                d.set("k", "tlwe_poly").set("kk", 1).set("M", M).set("acls", acls).set("seed", seed + M * 41).set("msgs", J::arr(all));
                H.exec(d, false);
                if (H.R.failure_count > 20) return H.finish();
            }
        return H.finish();
    }
    if (H.mode == "gate") {
        uint64_t seed = A.u("seed", 1);
        int reps = (int)A.i("reps", 2000);
        for (int lambda : {80, 128})
            for (int q = 0; q < (int)A.i("batches", 10); q++) {
                J c = J::object();
                c.set("k", "gate").set("lambda", lambda).set("keyseed", seed).set("seed", seed * 1000 + q).set("reps", reps).set("M", 2).set("acls", 4);
                H.exec(c);
                H.R.evaluations += 2 * reps - 1;
            }
        return H.finish();
    }
    auto genM = rc::gen::weightedOneOf<int>({{4, rng<int>(2, 64)}, {3, rng<int>(65, 1 << 20)}, {2, rc::gen::map(rng<int>(1, 30), [](int e) { return 1 << e; })},
                                              {1, rc::gen::element<int>(3, 5, 7, 1000, 65535, 65537, 100000, 1000003)}});
    H.rc_loop("C03 decryption inverts encryption", [&]() {
        int which = *rc::gen::weightedElement<int>({{6, 0}, {1, 1}, {3, 2}, {3, 3}, {1, 4}, {3, 5}, {1, 6}, {1, 7}});
        static const char *KINDS[] = {"lwe", "lwe_trivial", "tlwe_const", "tlwe_poly", "tlwe_trivial", "tgsw", "tgsw_int", "tgsw_trivial"};
        J c = J::object();
        std::string k = KINDS[which];
        int M = *genM;
        c.set("k", k).set("seed", *genSeed()).set("acls", *rc::gen::weightedElement<int>({{1, 0}, {1, 1}, {1, 2}, {2, 3}, {5, 4}}));
        if (k.rfind("lwe", 0) == 0) c.set("n", *rc::gen::weightedOneOf<int>({{6, rng<int>(1, 40)}, {3, rc::gen::element<int>(500, 630, 1024, 1025)}}));
        else c.set("kk", *rng<int>(1, 3));
        if (k.rfind("tgsw", 0) == 0) {
            int Bgbit = *rng<int>(1, 16);
            int l = *rng<int>(1, std::min(32 / Bgbit, 8));
            M = 1 << *rng<int>(1, Bgbit); // power of two <= Bg
            c.set("l", l).set("Bgbit", Bgbit).set("kk", *rng<int>(1, 2));
        }
        c.set("M", M);
        // a few explicit messages (incl. the extremes 0 and Msize-1); the rest of a polynomial is expanded from the seed
        int cnt = *rng<int>(1, 6);
        std::vector<int64_t> msgs;
        for (int i = 0; i < cnt; i++) msgs.push_back(*rc::gen::oneOf(rng<int64_t>(0, M - 1), rc::gen::element<int64_t>(0, M - 1, M / 2, 1)) % M);
        c.set("msgs", J::arr(msgs));
        return c;
    });
    return H.finish();
}
