// C18 — truncated or mistyped serialized input is never accepted silently.
// E3 fork-per-case fault injection: every proper prefix (crash point of the writer), every A-into-B
// substitution, every single-byte corruption of title lines and binary type tags; both transports.
#include "common.hpp"
#include "iolib.hpp"
#include <sys/wait.h>
using namespace vf;

static Report R;
enum Outcome { O_ABORT, O_NULLSEGV, O_FAILBIT, O_EQUAL, O_THROW, O_VIOL_ACCEPT, O_VIOL_WILD, O_VIOL_ASAN, O_HANG, O_OTHER };
static const char *ONAME[] = {"abort", "null-deref", "stream-failbit", "equal-to-intact-import", "exception-abort", "VIOLATION-accepted", "VIOLATION-wild-access", "VIOLATION-sanitizer", "hang", "other"};

static void segv_handler(int, siginfo_t *si, void *) {
    uintptr_t a = (uintptr_t)si->si_addr;
    _exit(a < 65536 ? 78 : 79); // NULL->method() dereference vs wild access
}

// runs the import of `bytes` as type `type` in a forked child; ref = object obtained from the intact export (may be null for substitutions)
static Outcome attempt(int type, const IoObj *proto, const std::string &bytes, bool file, const IoObj *ref, std::string *detail) {
    int fd[2], fe[2];
    if (pipe(fd) || pipe(fe)) { perror("pipe"); exit(3); }
    fflush(nullptr);
    pid_t pid = fork();
    if (pid == 0) {
        close(fd[0]); close(fe[0]);
        dup2(fe[1], 2); // the library and the sanitizers report on stderr: the parent classifies it
        struct sigaction sa; memset(&sa, 0, sizeof sa); sa.sa_sigaction = segv_handler; sa.sa_flags = SA_SIGINFO;
        sigaction(SIGSEGV, &sa, nullptr); sigaction(SIGBUS, &sa, nullptr);
        signal(SIGABRT, SIG_DFL);
        alarm(10);
        std::istringstream S(bytes);
        FILE *F = file ? fmemopen((void *)bytes.data(), bytes.size() ? bytes.size() : 1, "rb") : nullptr;
        if (file && bytes.empty()) { fclose(F); F = fopen("/dev/null", "rb"); }
        IoObj *im = io_import_any(type, proto, F, file ? nullptr : &S);
        bool failed = !file && !S;
        char m = failed ? 'F' : 'R';
        (void)!write(fd[1], &m, 1);
        if (failed) _exit(10);
        // returned normally with a clean stream (or on a FILE): only acceptable when the object equals the intact import
        if (!ref) { // substitution: acceptable only if the input really begins with a complete, well-typed object of the requested type
            if (proto) { im->lp = proto->lp; im->tp = proto->tp; im->gp = proto->gp; }
            std::string again = io_export_bytes(im, file);
            _exit(!again.empty() && again.size() <= bytes.size() && !memcmp(again.data(), bytes.data(), again.size()) ? 0 : 20);
        }
        std::string w = io_equal(ref, im);
        if (w.empty()) _exit(0);
        (void)!write(fd[1], w.data(), std::min<size_t>(w.size(), 300));
        _exit(20);
    }
    close(fd[1]); close(fe[1]);
    char buf[400]; std::string got, err; ssize_t n;
    while ((n = read(fd[0], buf, sizeof buf)) > 0) got.append(buf, n);
    close(fd[0]);
    while ((n = read(fe[0], buf, sizeof buf)) > 0) if (err.size() < (4u << 20)) err.append(buf, n);
    close(fe[0]);
    int st = 0;
    waitpid(pid, &st, 0);
    bool returned = !got.empty();
    if (detail) *detail = got.size() > 1 ? got.substr(1) : "";
    if (WIFSIGNALED(st)) {
        int sg = WTERMSIG(st);
        if (sg == SIGALRM) return O_HANG;
        if (returned && got[0] == 'R') return O_VIOL_ACCEPT; // importer returned normally, the partially filled object then blew up the comparison
        if (sg == SIGABRT) return O_ABORT;
        if (detail) *detail = "killed by signal " + std::to_string(sg) + " " + err.substr(0, 200);
        return O_OTHER;
    }
    int ec = WEXITSTATUS(st);
    if (ec == 1 && err.find("runtime error") != std::string::npos) { // UBSan subset of the sanitizer build halts with status 1
        bool nullderef = err.find("null pointer") != std::string::npos;
        if (nullderef && !(returned && got[0] == 'R')) return O_NULLSEGV; // NULL->method() on the missing text section: the documented outcome
        if (detail) { size_t p = err.find("runtime error"); *detail = err.substr(p == std::string::npos ? 0 : (p > 80 ? p - 80 : 0), 300); }
        return returned && got[0] == 'R' ? O_VIOL_ACCEPT : O_VIOL_ASAN;
    }
    if (ec == 77 && detail) *detail = err.substr(0, 400);
    if (ec == 0) return O_EQUAL;
    if (ec == 10) return O_FAILBIT;
    if (ec == 20) return O_VIOL_ACCEPT;
    if (ec == 77) return O_VIOL_ASAN;
    if (ec == 78) return (returned && got[0] == 'R') ? O_VIOL_ACCEPT : O_NULLSEGV;
    if (ec == 79) return (returned && got[0] == 'R') ? O_VIOL_ACCEPT : O_VIOL_WILD;
    if (detail) *detail = "exit status " + std::to_string(ec) + " " + err.substr(0, 300);
    return O_OTHER;
}

static J small_desc(int type, uint64_t seed) {
    SplitMix r(seed * 131 + type);
    J d = J::object();
    bool keyset = type == T_CLOUD || type == T_SECRET;
    d.set("type", type).set("name", IONAME[type]).set("n", keyset ? 1 : (int)(1 + r.next() % 5)).set("N", keyset ? 1024 : 8).set("k", 1).set("l", keyset ? 1 : (int)(1 + r.next() % 2)).set("Bgbit", (int)(2 + r.next() % 6));
    d.set("t", keyset ? 1 : (int)(1 + r.next() % 2)).set("bb", 1).set("nout", (int)(1 + r.next() % 3)).set("amin", 0.1).set("amax", 0.3).set("amin2", 0.01).set("amax2", 0.2).set("ckind", 0).set("seed", seed + 17 * type);
    return d;
}

static void record(const char *kind, int type, int type2, bool file, long off, int val, Outcome o, const std::string &detail) {
    R.evaluations++;
    R.cls(std::string(kind) + ":" + ONAME[o]);
    J c = J::object();
    c.set("k", kind).set("type", type).set("name", IONAME[type]).set("as", type2).set("as_name", IONAME[type2]).set("file", (int)file).set("offset", (int64_t)off).set("value", val);
    if (R.evaluations % 499 == 1) R.note_sample(c);
    if (o == O_VIOL_ACCEPT || o == O_VIOL_WILD || o == O_VIOL_ASAN || o == O_OTHER) {
        char b[500];
        snprintf(b, sizeof b, "%s of %s read as %s via %s at offset %ld (value %d): %s %s", kind, IONAME[type], IONAME[type2], file ? "FILE" : "stream", off, val, ONAME[o], detail.c_str());
        R.fail(c, b, std::string("c18/") + kind + "/" + ONAME[o]);
    }
    if (o == O_HANG) R.cls("inconclusive_hang");
}

// positions of title lines ("-----BEGIN X-----", "-----END X-----", "key: value" names) and of 4-byte binary tags
static void marker_positions(const std::string &bytes, std::vector<long> &titles, std::vector<long> &tags, std::vector<long> *names = nullptr) {
    size_t i = 0;
    while (i < bytes.size()) {
        if (bytes.compare(i, 5, "-----") == 0) {
            size_t e = bytes.find('\n', i);
            if (e == std::string::npos) e = bytes.size();
            for (size_t p = i; p <= e && p < bytes.size(); p++) titles.push_back((long)p);
            bool end = bytes.compare(i, 9, "-----END ") == 0;
            i = e + 1;
            if (end && i < bytes.size() && bytes.compare(i, 5, "-----") != 0) { for (int q = 0; q < 4 && i + q < bytes.size(); q++) tags.push_back((long)(i + q)); break; } // first binary tag after the last text section
        } else {
            size_t e = bytes.find('\n', i);
            if (e == std::string::npos) break;
            size_t c = bytes.find(": ", i);
            if (c != std::string::npos && c < e) for (size_t p = i; p < c + 2; p++) (names ? *names : titles).push_back((long)p); // property names
            i = e + 1;
        }
    }
    if (titles.empty() && bytes.size() >= 4) for (int q = 0; q < 4; q++) tags.push_back(q); // purely binary object: tag first
}

int main(int argc, char **argv) {
    Args A(argc, argv);
    std::string out = A.s("out", "c18.json"), mode = A.s("mode", "trunc");
    install_crash_handler(out + ".crash");
    uint64_t seed = A.u("seed", 1);
    int tfrom = (int)A.i("tfrom", 0), tto = (int)A.i("tto", T_COUNT - 1);
    int stride = (int)A.i("stride", 1);
    long only_off = -1; int only_file = -1;
    if (mode == "replay") {
        J c = J::parse_file(A.s("replay"))["case"];
        mode = c["k"].s(); tfrom = tto = (int)c["type"].i();
        // replay re-runs the recorded fault only (same instance, transport and offset); families of the key sets have > 60000 members
        stride = 1;
        only_off = c.has("offset") ? (long)c["offset"].i() : -1; only_file = c.has("file") ? (int)c["file"].i() : -1;
    }
    for (int type = tfrom; type <= tto; type++) {
        IoObj *o = io_build(small_desc(type, seed));
        IoObj view = *o;
        for (int file = 0; file < 2; file++) {
            if (only_file >= 0 && file != only_file) continue;
            std::string bytes = io_export_bytes(&view, file);
            // reference: import of the intact export
            std::istringstream S(bytes); FILE *F = file ? fmemopen((void *)bytes.data(), bytes.size(), "rb") : nullptr;
            IoObj *ref = io_import_any(type, o, F, file ? nullptr : &S);
            if (F) fclose(F);
            std::string w = io_equal(o, ref);
            if (!w.empty()) { J c = J::object(); c.set("k", "selfcheck").set("type", type); R.fail(c, "intact import differs from the original: " + w, "c18/selfcheck"); }
            std::string detail;
            if (mode == "trunc") {
                std::vector<long> titles, tags;
                marker_positions(bytes, titles, tags);
                std::unordered_set<long> must(titles.begin(), titles.end());
                for (long t : tags) for (long d = -3; d <= 7; d++) must.insert(t + d);
                for (long d = 1; d <= 40; d++) must.insert((long)bytes.size() - d);
                for (long L = 0; L < (long)bytes.size(); L++) {
                    if (only_off >= 0 && L != only_off) continue;
                    if (stride > 1 && !must.count(L) && (L % stride) != (long)(seed % stride)) continue;
                    Outcome oc = attempt(type, o, bytes.substr(0, L), file, ref, &detail);
                    record("trunc", type, type, file, L, 0, oc, detail);
                }
            } else if (mode == "corrupt") {
                std::vector<long> titles, tags, names;
                marker_positions(bytes, titles, tags, &names);
                // binary tags inside composite objects: locate every occurrence of a known tag value preceded by a section end or a data block boundary (found by value)
                for (size_t i = 0; i + 4 <= bytes.size(); i++) {
                    int32_t v; memcpy(&v, bytes.data() + i, 4);
                    if ((v == 42 || v == 43 || v == 84 || v == 85 || v == 168 || v == 169 || v == 200 || v == 201 || v == 170 || v == 86) && (i == 0 || bytes[i - 1] == '\n')) for (int q = 0; q < 4; q++) tags.push_back((long)i + q);
                }
                std::vector<long> pos(titles); pos.insert(pos.end(), tags.begin(), tags.end()); pos.insert(pos.end(), names.begin(), names.end());
                std::unordered_set<long> strict(titles.begin(), titles.end()); strict.insert(tags.begin(), tags.end());
                std::sort(pos.begin(), pos.end()); pos.erase(std::unique(pos.begin(), pos.end()), pos.end());
                for (long p : pos) for (int v = 0; v < 3; v++) {
                    if (only_off >= 0 && p != only_off) continue;
                    std::string b2 = bytes;
                    unsigned char ch = (unsigned char)b2[p];
                    b2[p] = (char)(v == 0 ? ch + 1 : v == 1 ? ch ^ 0x20 : ch ^ 0x80);
                    if (b2[p] == '\n' || bytes[p] == '\n') continue; // line structure changes are a different fault class (covered by truncation)
                    Outcome oc = attempt(type, o, b2, file, ref, &detail);
                    // a title or tag that no longer matches must never be accepted, even if the returned object happens to equal the intact one;
                    // for property-name bytes (not named by the property) an import equal to the intact one is tolerated
                    if (oc == O_EQUAL && strict.count(p)) { oc = O_VIOL_ACCEPT; detail = "input with a corrupted title/type tag was accepted as if it were intact"; }
                    record("corrupt", type, type, file, p, v, oc, detail);
                }
            } else if (mode == "subst") {
                for (int t2 = 0; t2 < T_COUNT; t2++) {
                    if (t2 == type) continue;
                    if ((type == T_CLOUD && t2 == T_SECRET)) continue; // handled as truncation (cloud export is a proper prefix of the secret export)
                    if (type == T_SECRET && t2 == T_CLOUD) continue;   // a secret export starts with a complete cloud export: importing it as cloud is the documented prefix relation, not a mistyped input
                    IoObj *p2 = io_build(small_desc(t2, seed + 1));
                    Outcome oc = attempt(t2, p2, bytes, file, nullptr, &detail);
                    record("subst", type, t2, file, 0, 0, oc, detail);
                    io_free(p2);
                }
            }
            io_free_imported(ref);
        }
        io_free(o);
    }
    R.exhaustive_nontrivial = R.evaluations;
    R.write(out);
    if (A.s("mode") == "replay") printf(R.failure_count ? "REPLAY-FAIL\n" : "REPLAY-PASS\n");
    return R.failure_count ? 1 : 0;
}
