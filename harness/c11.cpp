// C11 — naive, Karatsuba and monomial multiplications (and coefficient-wise ops) are exact
// in Z[X]/(X^N+1) with coefficients mod 2^32.  E1 rapidcheck + E2 exhaustive (a, bilinear table).
#include "hmain.hpp"
#include <tfhe.h>
#include <polynomials_arithmetic.h>
using namespace vf;

static const char *OPS[] = {"MultNaive", "MultKaratsuba", "AddMulRKaratsuba", "SubMulRKaratsuba", "MulByXai", "MulByXaiMinusOne",
                            "intMulByXaiMinusOne", "Add", "Sub", "AddTo", "SubTo", "AddMulZ", "SubMulZ", "AddMulZTo", "SubMulZTo",
                            "Copy", "Clear", "intCopy", "intClear", "intAddTo", "NormSq2", "lawXaXb", "lawXaMinusOne", "NormInftyDist"};
static const int NOPS = sizeof(OPS) / sizeof(OPS[0]);

static std::string cmp(const char *what, const uint32_t *got, const uint32_t *ref, int N) {
    for (int i = 0; i < N; i++)
        if (got[i] != ref[i]) {
            char b[200];
            snprintf(b, sizeof b, "%s: coefficient %d is %u, exact value %u (N=%d)", what, i, got[i], ref[i], N);
            return b;
        }
    return "";
}

static std::string run_case(const J &c, std::string &sig) {
    const std::string op = c["op"].s();
    sig = "c11/" + op;
    const int N = (int)c["N"].i();
    const int a = (int)c["a"].i(), b = (int)c["b"].i();
    const int32_t p = (int32_t)c["p"].i();
    std::vector<uint32_t> A(N), B(N), C(N), ref(N), tmp(N);
    expand_poly(c["A"], N, A.data());
    expand_poly(c["B"], N, B.data());
    expand_poly(c["C"], N, C.data());
    if (op == "NormSq2") fill_int((int32_t *)A.data(), N, 1000, (int)c["A"]["kind"].i(), (uint64_t)c["A"]["seed"].i());
    IntPolynomial *ia = new_IntPolynomial(N), *ic = new_IntPolynomial(N);
    TorusPolynomial *ta = new_TorusPolynomial(N), *tb = new_TorusPolynomial(N), *tc = new_TorusPolynomial(N), *tt = new_TorusPolynomial(N);
    memcpy(ia->coefs, A.data(), 4 * N); memcpy(ta->coefsT, A.data(), 4 * N);
    memcpy(tb->coefsT, B.data(), 4 * N);
    memcpy(tc->coefsT, C.data(), 4 * N); memcpy(ic->coefs, C.data(), 4 * N);
    std::string why;
    const uint32_t *res = (const uint32_t *)tc->coefsT;
    bool check_inputs = true;
    if (op == "MultNaive") { torusPolynomialMultNaive(tc, ia, tb); ref_negacyclic(ref.data(), (int32_t *)A.data(), B.data(), N); }
    else if (op == "MultKaratsuba") { torusPolynomialMultKaratsuba(tc, ia, tb); ref_negacyclic(ref.data(), (int32_t *)A.data(), B.data(), N); }
    else if (op == "AddMulRKaratsuba") { torusPolynomialAddMulRKaratsuba(tc, ia, tb); ref_negacyclic(ref.data(), (int32_t *)A.data(), B.data(), N); for (int i = 0; i < N; i++) ref[i] = C[i] + ref[i]; }
    else if (op == "SubMulRKaratsuba") { torusPolynomialSubMulRKaratsuba(tc, ia, tb); ref_negacyclic(ref.data(), (int32_t *)A.data(), B.data(), N); for (int i = 0; i < N; i++) ref[i] = C[i] - ref[i]; }
    else if (op == "MulByXai") { torusPolynomialMulByXai(tc, a, tb); ref_mulxai(ref.data(), a, B.data(), N); }
    else if (op == "MulByXaiMinusOne") { torusPolynomialMulByXaiMinusOne(tc, a, tb); ref_mulxai(ref.data(), a, B.data(), N); for (int i = 0; i < N; i++) ref[i] -= B[i]; }
    else if (op == "intMulByXaiMinusOne") { intPolynomialMulByXaiMinusOne(ic, a, ia); ref_mulxai(ref.data(), a, A.data(), N); for (int i = 0; i < N; i++) ref[i] -= A[i]; res = (const uint32_t *)ic->coefs; }
    else if (op == "Add") { torusPolynomialAdd(tc, ta, tb); for (int i = 0; i < N; i++) ref[i] = A[i] + B[i]; }
    else if (op == "Sub") { torusPolynomialSub(tc, ta, tb); for (int i = 0; i < N; i++) ref[i] = A[i] - B[i]; }
    else if (op == "AddTo") { torusPolynomialAddTo(tc, tb); for (int i = 0; i < N; i++) ref[i] = C[i] + B[i]; }
    else if (op == "SubTo") { torusPolynomialSubTo(tc, tb); for (int i = 0; i < N; i++) ref[i] = C[i] - B[i]; }
    else if (op == "AddMulZ") { torusPolynomialAddMulZ(tc, ta, p, tb); for (int i = 0; i < N; i++) ref[i] = A[i] + (uint32_t)p * B[i]; }
    else if (op == "SubMulZ") { torusPolynomialSubMulZ(tc, ta, p, tb); for (int i = 0; i < N; i++) ref[i] = A[i] - (uint32_t)p * B[i]; }
    else if (op == "AddMulZTo") { torusPolynomialAddMulZTo(tc, p, tb); for (int i = 0; i < N; i++) ref[i] = C[i] + (uint32_t)p * B[i]; }
    else if (op == "SubMulZTo") { torusPolynomialSubMulZTo(tc, p, tb); for (int i = 0; i < N; i++) ref[i] = C[i] - (uint32_t)p * B[i]; }
    else if (op == "Copy") { torusPolynomialCopy(tc, tb); ref = B; }
    else if (op == "Clear") { torusPolynomialClear(tc); std::fill(ref.begin(), ref.end(), 0); }
    else if (op == "intCopy") { intPolynomialCopy(ic, ia); ref = A; res = (const uint32_t *)ic->coefs; }
    else if (op == "intClear") { intPolynomialClear(ic); std::fill(ref.begin(), ref.end(), 0); res = (const uint32_t *)ic->coefs; }
    else if (op == "intAddTo") { intPolynomialAddTo(ic, ia); for (int i = 0; i < N; i++) ref[i] = C[i] + A[i]; res = (const uint32_t *)ic->coefs; }
    else if (op == "NormSq2") {
        double got = intPolynomialNormSq2(ia);
        int64_t s = 0;
        for (int i = 0; i < N; i++) { int64_t v = (int32_t)A[i]; s += v * v; }
        if (got != (double)s) { char bb[120]; snprintf(bb, sizeof bb, "intPolynomialNormSq2 = %.1f, exact %lld (N=%d)", got, (long long)s, N); why = bb; }
        ref.assign(res, res + N);
    } else if (op == "NormInftyDist") {
        double got = torusPolynomialNormInftyDist(ta, tb);
        double mx = 0;
        for (int i = 0; i < N; i++) { double d = std::fabs((double)(int32_t)(A[i] - B[i]) / 4294967296.0); if (d > mx) mx = d; }
        if (got != mx) { char bb[120]; snprintf(bb, sizeof bb, "torusPolynomialNormInftyDist = %.17g, exact %.17g", got, mx); why = bb; }
        ref.assign(res, res + N);
    } else if (op == "lawXaXb") { // X^a * (X^b * s) == X^((a+b) mod 2N) * s, library against itself and against the reference
        torusPolynomialMulByXai(tt, b, tb);
        torusPolynomialMulByXai(tc, a, tt);
        torusPolynomialMulByXai(tt, (a + b) % (2 * N), tb);
        why = cmp("X^a*(X^b*s) vs X^(a+b mod 2N)*s (library vs library)", (const uint32_t *)tc->coefsT, (const uint32_t *)tt->coefsT, N);
        ref_mulxai(ref.data(), (a + b) % (2 * N), B.data(), N);
    } else if (op == "lawXaMinusOne") { // (X^a-1)*s == X^a*s - s ; naive == karatsuba on the same inputs
        torusPolynomialMulByXai(tt, a, tb);
        torusPolynomialSubTo(tt, tb);
        torusPolynomialMulByXaiMinusOne(tc, a, tb);
        why = cmp("(X^a-1)*s vs X^a*s - s (library vs library)", (const uint32_t *)tc->coefsT, (const uint32_t *)tt->coefsT, N);
        if (why.empty()) {
            torusPolynomialMultNaive(tt, ia, tb);
            torusPolynomialMultKaratsuba(tc, ia, tb);
            why = cmp("MultKaratsuba vs MultNaive (library vs library)", (const uint32_t *)tc->coefsT, (const uint32_t *)tt->coefsT, N);
        }
        ref_negacyclic(ref.data(), (int32_t *)A.data(), B.data(), N);
    } else { why = "unknown op " + op; check_inputs = false; }
    if (why.empty()) why = cmp(op.c_str(), res, ref.data(), N);
    if (why.empty() && check_inputs) {
        if (memcmp(tb->coefsT, B.data(), 4 * N)) why = op + ": torus input polynomial was modified";
        else if (memcmp(ia->coefs, A.data(), 4 * N)) why = op + ": integer input polynomial was modified";
        else if (memcmp(ta->coefsT, A.data(), 4 * N)) why = op + ": first torus input polynomial was modified";
    }
    delete_IntPolynomial(ia); delete_IntPolynomial(ic);
    delete_TorusPolynomial(ta); delete_TorusPolynomial(tb); delete_TorusPolynomial(tc); delete_TorusPolynomial(tt);
    return why;
}

static J kind(int k, uint64_t s) { J j = J::object(); j.set("kind", k).set("seed", s); return j; }
static J mkcase(const std::string &op, int N, int a, int b, int64_t p, const J &A, const J &B, const J &C) {
    J c = J::object();
    c.set("op", op).set("N", N).set("a", a).set("b", b).set("p", p).set("A", A).set("B", B).set("C", C);
    return c;
}

int main(int argc, char **argv) {
    Args A(argc, argv);
    Harness H(A, "c11");
    H.run_case = run_case;
    H.nontrivial = [](const J &c) {
        int N = (int)c["N"].i(), a = (int)c["a"].i();
        const std::string &op = c["op"].s();
        bool usesA = op.find("Xai") != std::string::npos || op.find("law") == 0;
        return N >= 16 || (usesA && (a == 0 || a == N - 1 || a == N || a == 2 * N - 1)) || poly_extreme(c["A"]) || poly_extreme(c["B"]);
    };
    H.classify = [](const J &c) { return "op_" + c["op"].s(); };
    if (H.mode == "replay") return H.replay(A.s("replay"));
    if (H.mode == "xai_sweep") { // every a in [0,2N) for every power of two N <= Nmax
        int Nmax = (int)A.i("Nmax", 256), Nmin = (int)A.i("Nmin", 1);
        uint64_t seed = A.u("seed", 1);
        for (int N = Nmin; N <= Nmax; N *= 2)
            for (int a = 0; a < 2 * N; a++)
                for (const char *op : {"MulByXai", "MulByXaiMinusOne", "intMulByXaiMinusOne", "lawXaXb"})
                    for (int k : {0, 3, 7}) {
                        int b = (int)(mix64(seed, (uint64_t)a * 131 + N) % (2 * N));
                        H.exec(mkcase(op, N, a, b, 0, kind(k, seed + a), kind(k, seed * 3 + a), kind(0, 5)), false);
                        if (H.R.failure_count > 40) return H.finish();
                    }
    } else if (H.mode == "bilinear") { // (c1*X^i) * (c2*X^j) for all i,j, N <= 16
        for (int N = 1; N <= (int)A.i("Nmax", 16); N *= 2)
            for (int i = 0; i < N; i++)
                for (int j = 0; j < N; j++)
                    for (int64_t c1 : {1ll, -1ll, (long long)INT32_MIN, (long long)INT32_MAX, 3ll})
                        for (int64_t c2 : {1ll, (long long)INT32_MIN, (long long)INT32_MAX, 0x12345678ll})
                            for (const char *op : {"MultNaive", "MultKaratsuba", "AddMulRKaratsuba", "SubMulRKaratsuba"}) {
                                std::vector<int64_t> va(N, 0), vb(N, 0);
                                va[i] = c1; vb[j] = c2;
                                J a1 = J::object(); a1.set("v", J::arr(va));
                                J b1 = J::object(); b1.set("v", J::arr(vb));
                                H.exec(mkcase(op, N, 0, 0, 0, a1, b1, kind(0, i * 17 + j)), false);
                                if (H.R.failure_count > 40) return H.finish();
                            }
        // N in {32..Nbig}: unit vectors at the wrap positions
        for (int N = 32; N <= (int)A.i("Nbig", 256); N *= 2)
            for (int i : {0, 1, N / 2 - 1, N / 2, N - 2, N - 1})
                for (int j : {0, 1, N / 2 - 1, N / 2, N - 2, N - 1})
                    for (const char *op : {"MultNaive", "MultKaratsuba", "AddMulRKaratsuba", "SubMulRKaratsuba"}) {
                        J a1 = kind(5, i), b1 = kind(5, j); // spike of INT32_MIN at index seed%N
                        H.exec(mkcase(op, N, 0, 0, 0, a1, b1, kind(0, i * 17 + j)), false);
                    }
    } else {
        int maxlog = (int)A.i("maxlogN", 11);
        H.rc_loop("C11 polynomial operations equal the exact negacyclic ring operations", [&]() {
            int e = *rc::gen::weightedOneOf<int>({{3, rng<int>(0, 5)}, {2, rng<int>(6, maxlog)}});
            int N = 1 << e;
            std::string op = OPS[*rng<int>(0, NOPS - 1)];
            int a = *rc::gen::oneOf(rng<int>(0, 2 * N - 1), rc::gen::element<int>(0, N - 1, N, 2 * N - 1));
            if (a < 0) a = 0;
            int b = *rng<int>(0, 2 * N - 1);
            int64_t p = *rc::gen::oneOf(genCoef(), rng<int64_t>(-40000, 40000));
            J PA = *genPolyDesc(N), PB = *genPolyDesc(N), PC = *genPolyDesc(N);
            if (op == "NormSq2") PA = kind(*rng<int>(0, 8), *genSeed());
            return mkcase(op, N, a, b, p, PA, PB, PC);
        });
    }
    return H.finish();
}
