// C19 — default parameter selection: dump every field of the set returned for --lambda (the
// process aborts for rejected values; the driver reads the exit status: E3 fork-per-case).
#include "common.hpp"
#include <tfhe.h>
using namespace vf;
int main(int argc, char **argv) {
    Args A(argc, argv);
    // --seq=a,b,c : several requests within ONE process (history dependence); --lambda=x : a single request
    std::vector<int32_t> seq;
    if (A.has("seq")) {
        std::stringstream ss(A.s("seq"));
        std::string tok;
        while (std::getline(ss, tok, ',')) seq.push_back((int32_t)strtol(tok.c_str(), nullptr, 10));
    } else seq.push_back((int32_t)A.i("lambda", 128));
    std::vector<TFheGateBootstrappingParameterSet *> live;
    for (int32_t lambda : seq) {
    TFheGateBootstrappingParameterSet *p = new_default_gate_bootstrapping_parameters(lambda);
    J j = J::object();
    j.set("lambda", lambda).set("ks_t", p->ks_t).set("ks_basebit", p->ks_basebit);
    const LweParams *in = p->in_out_params;
    j.set("n", in->n).set("ks_stdev", in->alpha_min).set("in_alpha_max", in->alpha_max);
    const TGswParams *g = p->tgsw_params;
    j.set("l", g->l).set("Bgbit", g->Bgbit).set("Bg", g->Bg).set("halfBg", g->halfBg).set("maskMod", (int64_t)g->maskMod)
        .set("kpl", g->kpl).set("offset", (int64_t)g->offset);
    std::vector<int64_t> h;
    for (int i = 0; i < g->l; i++) h.push_back((int64_t)(uint32_t)g->h[i]);
    j.set("h", J::arr(h));
    const TLweParams *t = g->tlwe_params;
    j.set("N", t->N).set("k", t->k).set("bk_stdev", t->alpha_min).set("tlwe_alpha_max", t->alpha_max);
    j.set("extracted_n", t->extracted_lweparams.n).set("extracted_alpha_min", t->extracted_lweparams.alpha_min)
        .set("extracted_alpha_max", t->extracted_lweparams.alpha_max);
    // a second call must give an equal, independent object
    TFheGateBootstrappingParameterSet *q = new_default_gate_bootstrapping_parameters(lambda);
    j.set("second_call_equal", q->ks_t == p->ks_t && q->in_out_params->n == p->in_out_params->n && q->tgsw_params->l == p->tgsw_params->l &&
                                   q->tgsw_params->tlwe_params->alpha_min == p->tgsw_params->tlwe_params->alpha_min);
    delete_gate_bootstrapping_parameters(q);
    live.push_back(p); // earlier sets stay alive while later ones are requested
    printf("%s\n", j.str().c_str());
    }
    for (auto *p : live) delete_gate_bootstrapping_parameters(p);
    return 0;
}
