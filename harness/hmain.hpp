// Common harness skeleton: case execution with recording, replay mode, rapidcheck mode.
#pragma once
#include "rcgen.hpp"

namespace vf {

struct Harness {
    Report R;
    std::string out, mode, prefix;
    // returns "" when the case passes; may set sig (failure signature)
    std::function<std::string(const J &, std::string &)> run_case;
    std::function<bool(const J &)> nontrivial = [](const J &) { return true; };
    std::function<std::string(const J &)> classify; // optional class label

    Harness(const Args &A, const std::string &pfx) : prefix(pfx) {
        out = A.s("out", pfx + ".json");
        mode = A.s("mode", "rc");
        install_crash_handler(out + ".crash");
    }
    // run one case, record it; returns the failure text
    std::string exec(const J &c, bool hashed = true) {
        set_current(c);
        bool nt = nontrivial(c);
        if (hashed) R.note(c, nt);
        else { R.evaluations++; if (nt) R.exhaustive_nontrivial++; if (R.evaluations % 997 == 1) R.note_sample(c); }
        if (classify) R.cls(classify(c));
        std::string sig;
        std::string why = run_case(c, sig);
        if (!why.empty()) R.fail(c, why, sig.empty() ? prefix : sig);
        return why;
    }
    int replay(const std::string &path) {
        J f = J::parse_file(path);
        J c = f["case"];
        std::string why = exec(c);
        if (!why.empty()) printf("REPLAY-FAIL %s\n", why.c_str());
        else printf("REPLAY-PASS\n");
        R.write(out);
        return why.empty() ? 0 : 1;
    }
    // rapidcheck loop: gen draws a case from rc generators
    void rc_loop(const std::string &desc, std::function<J()> gen) {
        rc::check(desc, [&]() {
            J c = gen();
            std::string why = exec(c);
            if (!why.empty()) RC_FAIL(why);
        });
    }
    int finish() {
        R.write(out);
        return R.failure_count ? 1 : 0;
    }
};

} // namespace vf
