// Common harness skeleton: case execution with recording, replay mode, rapidcheck mode.
#pragma once
#include <ctime>
#include "rcgen.hpp"
#include <sys/wait.h>

namespace vf {

struct Harness {
    Report R;
    std::string out, mode, prefix;
    // returns "" when the case passes; may set sig (failure signature)
    std::function<std::string(const J &, std::string &)> run_case;
    std::function<bool(const J &)> nontrivial = [](const J &) { return true; };
    std::function<std::string(const J &)> classify; // optional class label

    Harness(const Args &A, const std::string &pfx) : prefix(pfx) {
        out = A.s("out", pfx + ".json");
        mode = A.s("mode", "rc");
        install_crash_handler(out + ".crash");
    }
    // run one case, record it; returns the failure text
    std::string exec(const J &c, bool hashed = true) {
        set_current(c);
        bool nt = nontrivial(c);
        if (hashed) R.note(c, nt);
        else { R.evaluations++; if (nt) R.exhaustive_nontrivial++; if (R.evaluations % 997 == 1) R.note_sample(c); }
        if (classify) R.cls(classify(c));
        std::string sig;
        std::string why = run_case(c, sig);
        if (!why.empty()) R.fail(c, why, sig.empty() ? prefix : sig);
        return why;
    }
    int replay(const std::string &path) {
        J f = J::parse_file(path);
        J c = f["case"];
        std::string why = exec(c);
        if (!why.empty()) printf("REPLAY-FAIL %s\n", why.c_str());
        else printf("REPLAY-PASS\n");
        R.write(out);
        return why.empty() ? 0 : 1;
    }
    // rapidcheck loop: gen draws a case from rc generators
    void rc_loop(const std::string &desc, std::function<J()> gen) {
        // shrinking budget: after 80 failing executions, or 300 s after the first failure, remaining shrink candidates are accepted untested,
        // which ends the shrink; the last recorded failure is the (partially) shrunk case.  Time never decides pass/fail of a case.
        int nfail = 0; time_t first_fail = 0;
        rc::check(desc, [&]() {
            J c = gen();
            if (nfail >= 80 || (nfail && time(nullptr) - first_fail > 300)) return;
            std::string why = exec(c);
            if (!why.empty()) { if (!nfail++) first_fail = time(nullptr); RC_FAIL(why); }
        });
    }
    int finish() {
        R.write(out);
        return R.failure_count ? 1 : 0;
    }
};

// run f in a forked child so that a SIGSEGV (guard page) or abort becomes an ordinary, shrinkable failure
inline std::string forked(const std::function<std::string()> &f) {
    int fd[2];
    if (pipe(fd) != 0) return f();
    fflush(nullptr);
    pid_t pid = fork();
    if (pid < 0) { close(fd[0]); close(fd[1]); return f(); }
    if (pid == 0) {
        close(fd[0]);
        for (int s : {SIGSEGV, SIGABRT, SIGBUS, SIGFPE, SIGILL}) signal(s, SIG_DFL);
        std::string why = f();
        if (!why.empty()) (void)!write(fd[1], why.data(), why.size() > 4000 ? 4000 : why.size());
        close(fd[1]);
        _exit(why.empty() || why[0] == 1 ? 0 : 1);
    }
    close(fd[1]);
    std::string why;
    char buf[4096];
    ssize_t n;
    while ((n = read(fd[0], buf, sizeof buf)) > 0) why.append(buf, n);
    close(fd[0]);
    int st = 0;
    waitpid(pid, &st, 0);
    if (WIFSIGNALED(st)) {
        char b[120];
        snprintf(b, sizeof b, "child process killed by signal %d (%s) while executing the case", WTERMSIG(st), strsignal(WTERMSIG(st)));
        return b;
    }
    if (WIFEXITED(st) && WEXITSTATUS(st) != 0 && why.empty()) return "child exited with status " + std::to_string(WEXITSTATUS(st));
    return why;
}

} // namespace vf
