// Serialisable-object factory shared by C05 (round trip), C17 (cloud key content), C18 (faults):
// build an object of one of the 14 exportable types from a descriptor, export / import it on either
// transport, compare field by field.
#pragma once
#include "bklib.hpp"
#include <tfhe_io.h>

namespace vf {

enum IoType { T_LWEPARAMS, T_LWESAMPLE, T_LWEKEY, T_TLWEPARAMS, T_TLWESAMPLE, T_TLWEKEY, T_TGSWPARAMS, T_TGSWSAMPLE, T_TGSWKEY, T_KSKEY, T_BKKEY, T_GBPARAMS, T_CLOUD, T_SECRET, T_GATECT, T_COUNT };
static const char *IONAME[T_COUNT] = {"LweParams", "LweSample", "LweKey", "TLweParams", "TLweSample", "TLweKey", "TGswParams", "TGswSample", "TGswKey",
                                      "LweKeySwitchKey", "LweBootstrappingKey", "GateBootstrappingParameterSet", "CloudKeySet", "SecretKeySet", "GateCiphertext"};

struct IoObj {
    int type = 0;
    void *p = nullptr;          // the object
    // parameter objects the harness owns (for built objects); imported objects borrow params from the library's collector
    LweParams *lp = nullptr, *lp2 = nullptr; TLweParams *tp = nullptr; TGswParams *gp = nullptr; TFheGateBootstrappingParameterSet *gb = nullptr;
    bool imported = false;
    const LweParams *lweparams() const {
        switch (type) { case T_LWEPARAMS: return (const LweParams *)p; case T_LWEKEY: return ((const LweKey *)p)->params; default: return lp; }
    }
};

inline double dget(const J &d, const char *k, double def) { return d.has(k) ? d[k].d() : def; }

inline IoObj *io_build(const J &d) {
    IoObj *o = new IoObj;
    o->type = (int)d["type"].i();
    const int n = (int)d["n"].i(3), N = (int)d["N"].i(8), k = (int)d["k"].i(1), l = (int)d["l"].i(2), Bgbit = (int)d["Bgbit"].i(4), t = (int)d["t"].i(2), bb = (int)d["bb"].i(1), nout = (int)d["nout"].i(3);
    const double amin = dget(d, "amin", 0.1), amax = dget(d, "amax", 0.3), amin2 = dget(d, "amin2", 0.01), amax2 = dget(d, "amax2", 0.2);
    const int ck = (int)d["ckind"].i();
    SplitMix r((uint64_t)d["seed"].i());
    auto fillp = [&](int32_t *dst, int cnt) { fill_torus((uint32_t *)dst, cnt, ck, r.next()); };
    auto var = [&]() { return (double)(r.next() % 1000) / 1024.0 / 1024.0; };
    switch (o->type) {
        case T_LWEPARAMS: o->p = new_LweParams(n, amin, amax); break;
        case T_LWESAMPLE: { o->lp = new_LweParams(n, amin, amax); LweSample *s = new_LweSample(o->lp); fillp(s->a, n); s->b = r.i32(); s->current_variance = var(); o->p = s; break; }
        case T_LWEKEY: { o->lp = new_LweParams(n, amin, amax); LweKey *s = new_LweKey(o->lp); for (int i = 0; i < n; i++) s->key[i] = ck == 0 ? (int32_t)(r.next() & 1) : (int32_t)r.i32(); if (ck > 1) fillp(s->key, n); o->p = s; break; }
        case T_TLWEPARAMS: o->p = new_TLweParams(N, k, amin, amax); break;
        case T_TLWESAMPLE: { o->tp = new_TLweParams(N, k, amin, amax); TLweSample *s = new_TLweSample(o->tp); for (int i = 0; i <= k; i++) fillp(s->a[i].coefsT, N); s->current_variance = var(); o->p = s; break; }
        case T_TLWEKEY: { o->tp = new_TLweParams(N, k, amin, amax); TLweKey *s = new_TLweKey(o->tp); for (int i = 0; i < k; i++) for (int j = 0; j < N; j++) s->key[i].coefs[j] = ck == 0 ? (int32_t)(r.next() & 1) : r.i32(); o->p = s; break; }
        case T_TGSWPARAMS: { o->tp = new_TLweParams(N, k, amin, amax); o->p = new_TGswParams(l, Bgbit, o->tp); break; }
        case T_TGSWSAMPLE: { o->tp = new_TLweParams(N, k, amin, amax); o->gp = new_TGswParams(l, Bgbit, o->tp); TGswSample *s = new_TGswSample(o->gp);
            for (int q = 0; q < o->gp->kpl; q++) { for (int i = 0; i <= k; i++) fillp(s->all_sample[q].a[i].coefsT, N); s->all_sample[q].current_variance = var(); } o->p = s; break; }
        case T_TGSWKEY: { o->tp = new_TLweParams(N, k, amin, amax); o->gp = new_TGswParams(l, Bgbit, o->tp); TGswKey *s = new_TGswKey(o->gp); for (int i = 0; i < k; i++) for (int j = 0; j < N; j++) s->key[i].coefs[j] = ck == 0 ? (int32_t)(r.next() & 1) : r.i32(); o->p = s; break; }
        case T_KSKEY: { o->lp = new_LweParams(nout, amin, amax); LweKeySwitchKey *s = new_LweKeySwitchKey(n, t, bb, o->lp);
            for (int q = 0; q < n * t * (1 << bb); q++) { fillp(s->ks0_raw[q].a, nout); s->ks0_raw[q].b = r.i32(); s->ks0_raw[q].current_variance = var(); } o->p = s; break; }
        case T_BKKEY: { o->lp = new_LweParams(n, amin, amax); o->tp = new_TLweParams(N, k, amin2, amax2); o->gp = new_TGswParams(l, Bgbit, o->tp);
            LweBootstrappingKey *s = new_LweBootstrappingKey(t, bb, o->lp, o->gp);
            for (int q = 0; q < N * k * t * (1 << bb); q++) { fillp(s->ks->ks0_raw[q].a, n); s->ks->ks0_raw[q].b = r.i32(); s->ks->ks0_raw[q].current_variance = var(); }
            for (int i = 0; i < n; i++) for (int q = 0; q < o->gp->kpl; q++) { for (int c = 0; c <= k; c++) fillp(s->bk[i].all_sample[q].a[c].coefsT, N); s->bk[i].all_sample[q].current_variance = var(); }
            o->p = s; break; }
        case T_GBPARAMS: { o->lp = new_LweParams(n, amin, amax); o->tp = new_TLweParams(N, k, amin2, amax2); o->gp = new_TGswParams(l, Bgbit, o->tp); o->p = new TFheGateBootstrappingParameterSet(t, bb, o->lp, o->gp); break; }
        case T_CLOUD: case T_SECRET: { // real key generation (N = 1024: the importer rebuilds the FFT key)
            o->lp = new_LweParams(n, amin, amax); o->tp = new_TLweParams(1024, k, amin2, amax2); o->gp = new_TGswParams(l, Bgbit, o->tp);
            o->gb = new TFheGateBootstrappingParameterSet(t, bb, o->lp, o->gp);
            seed_lib((uint64_t)d["seed"].i(), 0x10f5u);
            o->p = new_random_gate_bootstrapping_secret_keyset(o->gb); // T_CLOUD exports &sk->cloud
            break; }
        case T_GATECT: { // a gate-API ciphertext, exported with its gate parameter set
            o->lp = new_LweParams(n, amin, amax); o->tp = new_TLweParams(N, k, amin2, amax2); o->gp = new_TGswParams(l, Bgbit, o->tp);
            o->gb = new TFheGateBootstrappingParameterSet(t, bb, o->lp, o->gp);
            LweSample *s = new_gate_bootstrapping_ciphertext(o->gb); fillp(s->a, n); s->b = r.i32(); s->current_variance = var(); o->p = s; break; }
    }
    return o;
}
inline void io_free_imported(IoObj *o);
inline void io_free(IoObj *o) { // built objects own their parameter objects; imported ones are released by io_free_imported
    if (!o) return;
    if (o->imported) { io_free_imported(o); return; }
    switch (o->type) {
        case T_LWEPARAMS: delete_LweParams((LweParams *)o->p); break;
        case T_LWESAMPLE: delete_LweSample((LweSample *)o->p); break;
        case T_LWEKEY: delete_LweKey((LweKey *)o->p); break;
        case T_TLWEPARAMS: delete_TLweParams((TLweParams *)o->p); break;
        case T_TLWESAMPLE: delete_TLweSample((TLweSample *)o->p); break;
        case T_TLWEKEY: delete_TLweKey((TLweKey *)o->p); break;
        case T_TGSWPARAMS: delete_TGswParams((TGswParams *)o->p); break;
        case T_TGSWSAMPLE: delete_TGswSample((TGswSample *)o->p); break;
        case T_TGSWKEY: delete_TGswKey((TGswKey *)o->p); break;
        case T_KSKEY: delete_LweKeySwitchKey((LweKeySwitchKey *)o->p); break;
        case T_BKKEY: delete_LweBootstrappingKey((LweBootstrappingKey *)o->p); break;
        case T_GBPARAMS: delete_gate_bootstrapping_parameters((TFheGateBootstrappingParameterSet *)o->p); break;
        case T_CLOUD: case T_SECRET: delete_gate_bootstrapping_secret_keyset((TFheGateBootstrappingSecretKeySet *)o->p); break;
        case T_GATECT: delete_gate_bootstrapping_ciphertext((LweSample *)o->p); break;
    }
    if (o->gb) delete_gate_bootstrapping_parameters(o->gb);
    if (o->gp) delete_TGswParams(o->gp);
    if (o->tp) delete_TLweParams(o->tp);
    if (o->lp) delete_LweParams(o->lp);
    delete o;
}
inline const TFheGateBootstrappingCloudKeySet *io_cloud(const IoObj *o) { return o->imported ? (const TFheGateBootstrappingCloudKeySet *)o->p : &((const TFheGateBootstrappingSecretKeySet *)o->p)->cloud; }

// ---- export (both transports)
inline void io_export_file(const IoObj *o, FILE *F) {
    switch (o->type) {
        case T_LWEPARAMS: export_lweParams_toFile(F, (LweParams *)o->p); break;
        case T_LWESAMPLE: export_lweSample_toFile(F, (LweSample *)o->p, o->lp); break;
        case T_LWEKEY: export_lweKey_toFile(F, (LweKey *)o->p); break;
        case T_TLWEPARAMS: export_tLweParams_toFile(F, (TLweParams *)o->p); break;
        case T_TLWESAMPLE: export_tlweSample_toFile(F, (TLweSample *)o->p, o->tp); break;
        case T_TLWEKEY: export_tlweKey_toFile(F, (TLweKey *)o->p); break;
        case T_TGSWPARAMS: export_tGswParams_toFile(F, (TGswParams *)o->p); break;
        case T_TGSWSAMPLE: export_tgswSample_toFile(F, (TGswSample *)o->p, o->gp); break;
        case T_TGSWKEY: export_tgswKey_toFile(F, (TGswKey *)o->p); break;
        case T_KSKEY: export_lweKeySwitchKey_toFile(F, (LweKeySwitchKey *)o->p); break;
        case T_BKKEY: export_lweBootstrappingKey_toFile(F, (LweBootstrappingKey *)o->p); break;
        case T_GBPARAMS: export_tfheGateBootstrappingParameterSet_toFile(F, (TFheGateBootstrappingParameterSet *)o->p); break;
        case T_CLOUD: export_tfheGateBootstrappingCloudKeySet_toFile(F, io_cloud(o)); break;
        case T_SECRET: export_tfheGateBootstrappingSecretKeySet_toFile(F, (TFheGateBootstrappingSecretKeySet *)o->p); break;
        case T_GATECT: export_gate_bootstrapping_ciphertext_toFile(F, (LweSample *)o->p, o->gb); break;
    }
}
inline void io_export_stream(const IoObj *o, std::ostream &F) {
    switch (o->type) {
        case T_LWEPARAMS: export_lweParams_toStream(F, (LweParams *)o->p); break;
        case T_LWESAMPLE: export_lweSample_toStream(F, (LweSample *)o->p, o->lp); break;
        case T_LWEKEY: export_lweKey_toStream(F, (LweKey *)o->p); break;
        case T_TLWEPARAMS: export_tLweParams_toStream(F, (TLweParams *)o->p); break;
        case T_TLWESAMPLE: export_tlweSample_toStream(F, (TLweSample *)o->p, o->tp); break;
        case T_TLWEKEY: export_tlweKey_toStream(F, (TLweKey *)o->p); break;
        case T_TGSWPARAMS: export_tGswParams_toStream(F, (TGswParams *)o->p); break;
        case T_TGSWSAMPLE: export_tgswSample_toStream(F, (TGswSample *)o->p, o->gp); break;
        case T_TGSWKEY: export_tgswKey_toStream(F, (TGswKey *)o->p); break;
        case T_KSKEY: export_lweKeySwitchKey_toStream(F, (LweKeySwitchKey *)o->p); break;
        case T_BKKEY: export_lweBootstrappingKey_toStream(F, (LweBootstrappingKey *)o->p); break;
        case T_GBPARAMS: export_tfheGateBootstrappingParameterSet_toStream(F, (TFheGateBootstrappingParameterSet *)o->p); break;
        case T_CLOUD: export_tfheGateBootstrappingCloudKeySet_toStream(F, io_cloud(o)); break;
        case T_SECRET: export_tfheGateBootstrappingSecretKeySet_toStream(F, (TFheGateBootstrappingSecretKeySet *)o->p); break;
        case T_GATECT: export_gate_bootstrapping_ciphertext_toStream(F, (LweSample *)o->p, o->gb); break;
    }
}
inline std::string io_export_bytes(const IoObj *o, bool file) {
    if (!file) { std::ostringstream ss; io_export_stream(o, ss); return ss.str(); }
    char *buf = nullptr; size_t len = 0;
    FILE *F = open_memstream(&buf, &len);
    io_export_file(o, F);
    fclose(F);
    std::string s(buf, len);
    free(buf);
    return s;
}
// ---- import (proto supplies the parameter objects the sample importers need)
inline IoObj *io_import_any(int type, const IoObj *proto, FILE *F, std::istream *S) {
    IoObj *o = new IoObj;
    o->type = type; o->imported = true;
    if (proto) { o->lp = proto->lp; o->tp = proto->tp; o->gp = proto->gp; o->gb = proto->gb; }
    switch (type) {
        case T_LWEPARAMS: o->p = F ? new_lweParams_fromFile(F) : new_lweParams_fromStream(*S); break;
        case T_LWESAMPLE: { LweSample *s = new_LweSample(proto->lp); if (F) import_lweSample_fromFile(F, s, proto->lp); else import_lweSample_fromStream(*S, s, proto->lp); o->p = s; break; }
        case T_LWEKEY: o->p = F ? new_lweKey_fromFile(F) : new_lweKey_fromStream(*S); break;
        case T_TLWEPARAMS: o->p = F ? new_tLweParams_fromFile(F) : new_tLweParams_fromStream(*S); break;
        case T_TLWESAMPLE: { TLweSample *s = new_TLweSample(proto->tp); if (F) import_tlweSample_fromFile(F, s, proto->tp); else import_tlweSample_fromStream(*S, s, proto->tp); o->p = s; break; }
        case T_TLWEKEY: o->p = F ? new_tlweKey_fromFile(F) : new_tlweKey_fromStream(*S); break;
        case T_TGSWPARAMS: o->p = F ? new_tGswParams_fromFile(F) : new_tGswParams_fromStream(*S); break;
        case T_TGSWSAMPLE: { TGswSample *s = new_TGswSample(proto->gp); if (F) import_tgswSample_fromFile(F, s, proto->gp); else import_tgswSample_fromStream(*S, s, proto->gp); o->p = s; break; }
        case T_TGSWKEY: o->p = F ? new_tgswKey_fromFile(F) : new_tgswKey_fromStream(*S); break;
        case T_KSKEY: o->p = F ? new_lweKeySwitchKey_fromFile(F) : new_lweKeySwitchKey_fromStream(*S); break;
        case T_BKKEY: o->p = F ? new_lweBootstrappingKey_fromFile(F) : new_lweBootstrappingKey_fromStream(*S); break;
        case T_GBPARAMS: o->p = F ? new_tfheGateBootstrappingParameterSet_fromFile(F) : new_tfheGateBootstrappingParameterSet_fromStream(*S); break;
        case T_CLOUD: o->p = F ? new_tfheGateBootstrappingCloudKeySet_fromFile(F) : new_tfheGateBootstrappingCloudKeySet_fromStream(*S); break;
        case T_SECRET: o->p = F ? new_tfheGateBootstrappingSecretKeySet_fromFile(F) : new_tfheGateBootstrappingSecretKeySet_fromStream(*S); break;
        case T_GATECT: { LweSample *s = new_gate_bootstrapping_ciphertext(proto->gb); if (F) import_gate_bootstrapping_ciphertext_fromFile(F, s, proto->gb); else import_gate_bootstrapping_ciphertext_fromStream(*S, s, proto->gb); o->p = s; break; }
    }
    // make exported-again objects exportable: samples need their params
    if (type == T_KSKEY) o->lp = nullptr;
    return o;
}
// imported objects reuse proto's parameter pointers for re-export of samples; never freed through the imported object
inline void io_free_imported(IoObj *o) {
    if (!o) return;
    IoObj tmp = *o;
    switch (o->type) {
        case T_LWEPARAMS: delete_LweParams((LweParams *)o->p); break;
        case T_TLWEPARAMS: delete_TLweParams((TLweParams *)o->p); break;
        case T_TGSWPARAMS: delete_TGswParams((TGswParams *)o->p); break;
        case T_LWESAMPLE: delete_LweSample((LweSample *)o->p); break;
        case T_LWEKEY: delete_LweKey((LweKey *)o->p); break;
        case T_TLWESAMPLE: delete_TLweSample((TLweSample *)o->p); break;
        case T_TLWEKEY: delete_TLweKey((TLweKey *)o->p); break;
        case T_TGSWSAMPLE: delete_TGswSample((TGswSample *)o->p); break;
        case T_TGSWKEY: delete_TGswKey((TGswKey *)o->p); break;
        case T_KSKEY: delete_LweKeySwitchKey((LweKeySwitchKey *)o->p); break;
        case T_BKKEY: delete_LweBootstrappingKey((LweBootstrappingKey *)o->p); break;
        case T_GBPARAMS: delete_gate_bootstrapping_parameters((TFheGateBootstrappingParameterSet *)o->p); break;
        case T_CLOUD: delete_gate_bootstrapping_cloud_keyset((TFheGateBootstrappingCloudKeySet *)o->p); break;
        case T_SECRET: delete_gate_bootstrapping_secret_keyset((TFheGateBootstrappingSecretKeySet *)o->p); break;
        case T_GATECT: delete_gate_bootstrapping_ciphertext((LweSample *)o->p); break;
    }
    (void)tmp;
    delete o;
}

// ---- field-by-field comparison
#define IOCMP(cond, msg) do { if (!(cond)) { char b_[300]; snprintf(b_, sizeof b_, "%s", std::string(msg).c_str()); return std::string(b_); } } while (0)
inline std::string fmtd(const char *what, double a, double b) { char buf[200]; snprintf(buf, sizeof buf, "%s: original %.17g, re-imported %.17g", what, a, b); return buf; }
inline std::string eq_lweparams(const LweParams *a, const LweParams *b) {
    IOCMP(a->n == b->n, "LweParams.n differs");
    if (a->alpha_min != b->alpha_min) return fmtd("LweParams.alpha_min", a->alpha_min, b->alpha_min);
    if (a->alpha_max != b->alpha_max) return fmtd("LweParams.alpha_max", a->alpha_max, b->alpha_max);
    return "";
}
inline std::string eq_tlweparams(const TLweParams *a, const TLweParams *b) {
    IOCMP(a->N == b->N && a->k == b->k, "TLweParams N/k differ");
    if (a->alpha_min != b->alpha_min) return fmtd("TLweParams.alpha_min", a->alpha_min, b->alpha_min);
    if (a->alpha_max != b->alpha_max) return fmtd("TLweParams.alpha_max", a->alpha_max, b->alpha_max);
    IOCMP(b->extracted_lweparams.n == b->N * b->k, "extracted parameters inconsistent after import");
    return "";
}
inline std::string eq_tgswparams(const TGswParams *a, const TGswParams *b) {
    IOCMP(a->l == b->l && a->Bgbit == b->Bgbit && a->Bg == b->Bg && a->halfBg == b->halfBg && a->maskMod == b->maskMod && a->kpl == b->kpl && a->offset == b->offset, "TGswParams fields differ");
    for (int i = 0; i < a->l; i++) IOCMP(a->h[i] == b->h[i], "TGswParams.h differs");
    return eq_tlweparams(a->tlwe_params, b->tlwe_params);
}
inline std::string eq_lwesample(const LweSample *a, const LweSample *b, int n, bool var_exact, double varmax) {
    IOCMP(!memcmp(a->a, b->a, (size_t)n * 4), "LWE mask coefficients differ");
    IOCMP(a->b == b->b, "LWE b differs");
    if (var_exact) { if (a->current_variance != b->current_variance) return fmtd("LweSample.current_variance", a->current_variance, b->current_variance); }
    else if (b->current_variance != varmax) return fmtd("key row variance (must come back as the common maximum)", varmax, b->current_variance);
    return "";
}
inline std::string eq_tlwesample(const TLweSample *a, const TLweSample *b, int N, int k, bool var_exact, double varmax) {
    for (int i = 0; i <= k; i++) IOCMP(!memcmp(a->a[i].coefsT, b->a[i].coefsT, (size_t)N * 4), "TLWE coefficients differ");
    IOCMP(b->b == b->a + k, "TLWE b alias broken after import");
    if (var_exact) { if (a->current_variance != b->current_variance) return fmtd("TLweSample.current_variance", a->current_variance, b->current_variance); }
    else if (b->current_variance != varmax) return fmtd("bootstrapping row variance (must come back as the common maximum)", varmax, b->current_variance);
    return "";
}
inline std::string eq_ks(const LweKeySwitchKey *a, const LweKeySwitchKey *b) {
    IOCMP(a->n == b->n && a->t == b->t && a->basebit == b->basebit && a->base == b->base, "key-switching key dimensions differ");
    std::string w = eq_lweparams(a->out_params, b->out_params);
    if (!w.empty()) return w;
    double mx = -1;
    const int cnt = a->n * a->t * a->base;
    for (int q = 0; q < cnt; q++) mx = std::max(mx, a->ks0_raw[q].current_variance);
    for (int i = 0; i < a->n; i++) for (int j = 0; j < a->t; j++) for (int h = 0; h < a->base; h++) {
        w = eq_lwesample(&a->ks[i][j][h], &b->ks[i][j][h], a->out_params->n, false, mx);
        if (!w.empty()) return "key-switching row (" + std::to_string(i) + "," + std::to_string(j) + "," + std::to_string(h) + "): " + w;
    }
    return "";
}
inline std::string eq_bk(const LweBootstrappingKey *a, const LweBootstrappingKey *b) {
    std::string w = eq_lweparams(a->in_out_params, b->in_out_params);
    if (w.empty()) w = eq_tgswparams(a->bk_params, b->bk_params);
    if (w.empty()) w = eq_ks(a->ks, b->ks);
    if (!w.empty()) return w;
    IOCMP(b->accum_params == b->bk_params->tlwe_params && b->extract_params == &b->accum_params->extracted_lweparams, "imported bootstrapping key parameter links inconsistent");
    double mx = -1;
    const int n = a->in_out_params->n, kpl = a->bk_params->kpl, N = a->bk_params->tlwe_params->N, k = a->bk_params->tlwe_params->k;
    for (int i = 0; i < n; i++) for (int q = 0; q < kpl; q++) mx = std::max(mx, a->bk[i].all_sample[q].current_variance);
    for (int i = 0; i < n; i++) for (int q = 0; q < kpl; q++) {
        w = eq_tlwesample(&a->bk[i].all_sample[q], &b->bk[i].all_sample[q], N, k, false, mx);
        if (!w.empty()) return "bootstrapping key entry " + std::to_string(i) + " row " + std::to_string(q) + ": " + w;
    }
    return "";
}
inline std::string eq_gb(const TFheGateBootstrappingParameterSet *a, const TFheGateBootstrappingParameterSet *b) {
    IOCMP(a->ks_t == b->ks_t && a->ks_basebit == b->ks_basebit, "ks_t / ks_basebit differ");
    std::string w = eq_lweparams(a->in_out_params, b->in_out_params);
    if (w.empty()) w = eq_tgswparams(a->tgsw_params, b->tgsw_params);
    return w;
}
inline std::string io_equal(const IoObj *a, const IoObj *b) {
    switch (a->type) {
        case T_LWEPARAMS: return eq_lweparams((LweParams *)a->p, (LweParams *)b->p);
        case T_LWESAMPLE: case T_GATECT: return eq_lwesample((LweSample *)a->p, (LweSample *)b->p, a->lp->n, true, 0);
        case T_LWEKEY: { const LweKey *x = (LweKey *)a->p, *y = (LweKey *)b->p; std::string w = eq_lweparams(x->params, y->params); if (!w.empty()) return w; IOCMP(!memcmp(x->key, y->key, (size_t)x->params->n * 4), "LWE key coefficients differ"); return ""; }
        case T_TLWEPARAMS: return eq_tlweparams((TLweParams *)a->p, (TLweParams *)b->p);
        case T_TLWESAMPLE: return eq_tlwesample((TLweSample *)a->p, (TLweSample *)b->p, a->tp->N, a->tp->k, true, 0);
        case T_TLWEKEY: { const TLweKey *x = (TLweKey *)a->p, *y = (TLweKey *)b->p; std::string w = eq_tlweparams(x->params, y->params); if (!w.empty()) return w;
            for (int i = 0; i < x->params->k; i++) IOCMP(!memcmp(x->key[i].coefs, y->key[i].coefs, (size_t)x->params->N * 4), "TLWE key coefficients differ"); return ""; }
        case T_TGSWPARAMS: return eq_tgswparams((TGswParams *)a->p, (TGswParams *)b->p);
        case T_TGSWSAMPLE: { const TGswSample *x = (TGswSample *)a->p, *y = (TGswSample *)b->p;
            for (int q = 0; q < a->gp->kpl; q++) { std::string w = eq_tlwesample(&x->all_sample[q], &y->all_sample[q], a->tp->N, a->tp->k, true, 0); if (!w.empty()) return "TGSW row " + std::to_string(q) + ": " + w; }
            return ""; }
        case T_TGSWKEY: { const TGswKey *x = (TGswKey *)a->p, *y = (TGswKey *)b->p; std::string w = eq_tgswparams(x->params, y->params); if (!w.empty()) return w;
            IOCMP(y->key == y->tlwe_key.key && y->tlwe_params == y->params->tlwe_params, "imported TGSW key internal links inconsistent");
            for (int i = 0; i < x->tlwe_params->k; i++) IOCMP(!memcmp(x->key[i].coefs, y->key[i].coefs, (size_t)x->tlwe_params->N * 4), "TGSW key coefficients differ"); return ""; }
        case T_KSKEY: return eq_ks((LweKeySwitchKey *)a->p, (LweKeySwitchKey *)b->p);
        case T_BKKEY: return eq_bk((LweBootstrappingKey *)a->p, (LweBootstrappingKey *)b->p);
        case T_GBPARAMS: return eq_gb((TFheGateBootstrappingParameterSet *)a->p, (TFheGateBootstrappingParameterSet *)b->p);
        case T_CLOUD: { const TFheGateBootstrappingCloudKeySet *x = io_cloud(a), *y = io_cloud(b); std::string w = eq_gb(x->params, y->params); if (w.empty()) w = eq_bk(x->bk, y->bk);
            if (w.empty() && !y->bkFFT) w = "imported cloud key has no FFT key"; return w; }
        case T_SECRET: { const TFheGateBootstrappingSecretKeySet *x = (TFheGateBootstrappingSecretKeySet *)a->p, *y = (TFheGateBootstrappingSecretKeySet *)b->p;
            std::string w = eq_gb(x->params, y->params); if (w.empty()) w = eq_bk(x->cloud.bk, y->cloud.bk); if (!w.empty()) return w;
            IOCMP(!memcmp(x->lwe_key->key, y->lwe_key->key, (size_t)x->params->in_out_params->n * 4), "secret LWE key differs");
            const TLweParams *tp = x->params->tgsw_params->tlwe_params;
            for (int i = 0; i < tp->k; i++) IOCMP(!memcmp(x->tgsw_key->key[i].coefs, y->tgsw_key->key[i].coefs, (size_t)tp->N * 4), "secret ring key differs");
            return ""; }
    }
    return "unknown type";
}

} // namespace vf
