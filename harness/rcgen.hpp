// rapidcheck generators for the case descriptors shared by several harnesses.
#pragma once
#include "common.hpp"
#include <rapidcheck.h>

namespace vf {

// full-range integer in [lo,hi] that does not collapse at small sizes
template <class T> inline rc::Gen<T> rng(T lo, T hi) {
    return rc::gen::resize(100, rc::gen::inRange<T>(lo, (T)(hi + 1)));
}
inline rc::Gen<int64_t> genU32() {
    return rc::gen::map(rc::gen::arbitrary<uint32_t>(), [](uint32_t x) { return (int64_t)x; });
}
inline rc::Gen<uint64_t> genSeed() { return rc::gen::resize(100, rc::gen::inRange<uint64_t>(0, 1ull << 40)); }

// an int32 value with the extremes over-represented
inline rc::Gen<int64_t> genCoef() {
    return rc::gen::oneOf(
        rc::gen::map(rc::gen::arbitrary<int32_t>(), [](int32_t x) { return (int64_t)x; }),
        rc::gen::element<int64_t>(0, 1, -1, 2, -2, INT32_MAX, INT32_MIN, INT32_MAX - 1, INT32_MIN + 1, 1 << 30, -(1 << 30)));
}

// polynomial content descriptor: {"kind":k,"seed":s} (expanded by fill_torus) or {"v":[...]} explicit
inline rc::Gen<J> genPolyDesc(int N, bool allow_explicit = true) {
    auto byKind = rc::gen::map(rc::gen::pair(rc::gen::weightedElement<int>({{6, 0}, {1, 1}, {1, 2}, {1, 3}, {1, 4}, {1, 5}, {1, 6}, {1, 7}, {1, 8}}), genSeed()),
                               [](std::pair<int, uint64_t> p) {
                                   J j = J::object();
                                   j.set("kind", p.first).set("seed", p.second);
                                   return j;
                               });
    if (N <= 16 && allow_explicit) {
        auto expl = rc::gen::map(rc::gen::container<std::vector<int64_t>>((size_t)N, genCoef()), [](std::vector<int64_t> v) {
            J j = J::object();
            j.set("v", J::arr(v));
            return j;
        });
        return rc::gen::oneOf(expl, byKind);
    }
    return byKind;
}
inline void expand_poly(const J &d, int N, uint32_t *out) {
    if (d.has("v")) {
        for (int i = 0; i < N; i++) out[i] = i < (int)d["v"].size() ? (uint32_t)d["v"][i].i() : 0;
    } else
        fill_torus(out, N, (int)d["kind"].i(), (uint64_t)d["seed"].i());
}
inline bool poly_extreme(const J &d) {
    if (d.has("v")) {
        for (auto &x : d["v"].av)
            if (x.i() == INT32_MAX || x.i() == INT32_MIN) return true;
        return false;
    }
    int k = (int)d["kind"].i();
    return k == 1 || k == 2 || k == 3 || k == 5 || k == 8;
}

} // namespace vf
