// C10 — FFT products equal the exact negacyclic product within 2 units (B<=2^9), linear growth
// above; transforms mutually inverse within 1 unit; Lagrange-domain ops commute with transforms.
#include "hmain.hpp"
#include <tfhe.h>
#include <lagrangehalfc_arithmetic.h>
using namespace vf;

static const int N = 1024;
static bool g_fork = false;

static int64_t maxdiff(const uint32_t *a, const uint32_t *b, int *where) {
    int64_t m = 0;
    for (int i = 0; i < N; i++) {
        int64_t d = (int32_t)(a[i] - b[i]);
        if (d < 0) d = -d;
        if (d > m) { m = d; if (where) *where = i; }
    }
    return m;
}
static int64_t tol_for(int64_t B, int terms) {
    int64_t f = B <= 512 ? 1 : (B + 511) / 512;
    return 2 * f * terms;
}

static std::string body(const J &c, double *errout) {
    const std::string op = c["op"].s();
    const int64_t B = c["B"].i();
    int terms = (int)c["terms"].i(1);
    // The un-reduced sum of `terms` products reaches terms*N*B*2^31; it has to stay inside the int64 range of the final conversion
    // (a single product at B = 2^20 is 2^61).  Above 2^15 at most two products are accumulated: more would leave the representable
    // range, which is outside what the property (a statement about products and their commutation with the transforms) covers.
    if (B > 32768 && terms > 2) terms = 2;
    std::vector<std::vector<int32_t>> ia(terms, std::vector<int32_t>(N));
    std::vector<std::vector<uint32_t>> tb(terms, std::vector<uint32_t>(N));
    for (int t = 0; t < terms; t++) {
        fill_int(ia[t].data(), N, B, (int)c["ikind"].i(), (uint64_t)c["iseed"].i() + 7919ull * t);
        fill_torus(tb[t].data(), N, (int)c["tkind"].i(), (uint64_t)c["tseed"].i() + 104729ull * t);
    }
    std::vector<uint32_t> acc0(N), ref(N), tmp(N);
    fill_torus(acc0.data(), N, 0, (uint64_t)c["cseed"].i());
    IntPolynomial *ip = new_IntPolynomial(N);
    TorusPolynomial *tp = new_TorusPolynomial(N), *res = new_TorusPolynomial(N);
    memcpy(ip->coefs, ia[0].data(), 4 * N);
    memcpy(tp->coefsT, tb[0].data(), 4 * N);
    memcpy(res->coefsT, acc0.data(), 4 * N);
    int64_t tol = tol_for(B, 1);
    std::string why;
    char buf[300];
    if (op == "MultFFT" || op == "AddMulRFFT" || op == "SubMulRFFT" || op == "LagrMul") {
        ref_negacyclic(ref.data(), ia[0].data(), tb[0].data(), N);
        if (op == "MultFFT") torusPolynomialMultFFT(res, ip, tp);
        else if (op == "AddMulRFFT") { torusPolynomialAddMulRFFT(res, ip, tp); for (int i = 0; i < N; i++) ref[i] = acc0[i] + ref[i]; }
        else if (op == "SubMulRFFT") { torusPolynomialSubMulRFFT(res, ip, tp); for (int i = 0; i < N; i++) ref[i] = acc0[i] - ref[i]; }
        else {
            LagrangeHalfCPolynomial *L = new_LagrangeHalfCPolynomial_array(3, N);
            IntPolynomial_ifft(L + 0, ip); TorusPolynomial_ifft(L + 1, tp);
            LagrangeHalfCPolynomialMul(L + 2, L + 0, L + 1);
            TorusPolynomial_fft(res, L + 2);
            delete_LagrangeHalfCPolynomial_array(3, L);
        }
        if (memcmp(ip->coefs, ia[0].data(), 4 * N) || memcmp(tp->coefsT, tb[0].data(), 4 * N)) why = op + ": input polynomial modified";
    } else if (op == "RoundTrip") { // fft(ifft(t)) == t within 1 unit
        LagrangeHalfCPolynomial *L = new_LagrangeHalfCPolynomial(N);
        TorusPolynomial_ifft(L, tp); TorusPolynomial_fft(res, L);
        delete_LagrangeHalfCPolynomial(L);
        ref = tb[0]; tol = 1;
    } else if (op == "LagrAddTo") { // fft(ifft(t1)+ifft(t2)) == t1+t2
        LagrangeHalfCPolynomial *L = new_LagrangeHalfCPolynomial_array(2, N);
        TorusPolynomial *t2 = new_TorusPolynomial(N);
        memcpy(t2->coefsT, acc0.data(), 4 * N);
        TorusPolynomial_ifft(L, tp); TorusPolynomial_ifft(L + 1, t2);
        LagrangeHalfCPolynomialAddTo(L, L + 1);
        TorusPolynomial_fft(res, L);
        for (int i = 0; i < N; i++) ref[i] = tb[0][i] + acc0[i];
        delete_TorusPolynomial(t2); delete_LagrangeHalfCPolynomial_array(2, L);
        tol = 2;
    } else if (op == "LagrClear") {
        LagrangeHalfCPolynomial *L = new_LagrangeHalfCPolynomial(N);
        TorusPolynomial_ifft(L, tp); LagrangeHalfCPolynomialClear(L); TorusPolynomial_fft(res, L);
        delete_LagrangeHalfCPolynomial(L);
        std::fill(ref.begin(), ref.end(), 0); tol = 0;
    } else if (op == "LagrSetConst" || op == "LagrAddConst") {
        uint32_t mu = (uint32_t)c["mu"].i();
        LagrangeHalfCPolynomial *L = new_LagrangeHalfCPolynomial(N);
        TorusPolynomial_ifft(L, tp);
        if (op == "LagrSetConst") { LagrangeHalfCPolynomialSetTorusConstant(L, (int32_t)mu); std::fill(ref.begin(), ref.end(), 0); ref[0] = mu; tol = 1; }
        else { LagrangeHalfCPolynomialAddTorusConstant(L, (int32_t)mu); ref = tb[0]; ref[0] += mu; tol = 2; }
        TorusPolynomial_fft(res, L);
        delete_LagrangeHalfCPolynomial(L);
    } else if (op == "LagrAccum") { // sum_t (+-) a_t * b_t accumulated in the Lagrange domain, one inverse transform
        LagrangeHalfCPolynomial *L = new_LagrangeHalfCPolynomial_array(3, N);
        LagrangeHalfCPolynomialClear(L + 2);
        std::fill(ref.begin(), ref.end(), 0);
        int64_t signs = c["signs"].i();
        for (int t = 0; t < terms; t++) {
            memcpy(ip->coefs, ia[t].data(), 4 * N); memcpy(tp->coefsT, tb[t].data(), 4 * N);
            IntPolynomial_ifft(L + 0, ip); TorusPolynomial_ifft(L + 1, tp);
            ref_negacyclic(tmp.data(), ia[t].data(), tb[t].data(), N);
            if ((signs >> t) & 1) { LagrangeHalfCPolynomialSubMul(L + 2, L + 0, L + 1); for (int i = 0; i < N; i++) ref[i] -= tmp[i]; }
            else { LagrangeHalfCPolynomialAddMul(L + 2, L + 0, L + 1); for (int i = 0; i < N; i++) ref[i] += tmp[i]; }
        }
        TorusPolynomial_fft(res, L + 2);
        delete_LagrangeHalfCPolynomial_array(3, L);
        tol = tol_for(B, terms);
    } else why = "unknown op";
    int where = 0;
    int64_t d = maxdiff((uint32_t *)res->coefsT, ref.data(), &where);
    if (errout) *errout = (double)d;
    if (why.empty() && d > tol) {
        snprintf(buf, sizeof buf, "%s: coefficient %d differs from the exact value by %lld units of 2^-32, allowed %lld (B=%lld, terms=%d, int shape %d, torus shape %d)",
                 op.c_str(), where, (long long)d, (long long)tol, (long long)B, terms, (int)c["ikind"].i(), (int)c["tkind"].i());
        why = buf;
    }
    delete_IntPolynomial(ip); delete_TorusPolynomial(tp); delete_TorusPolynomial(res);
    return why;
}

static std::map<std::string, double> g_maxerr; // max observed error per (op,B,terms), in-process mode only
static std::string run_case(const J &c, std::string &sig) {
    sig = "c10/" + c["op"].s();
    if (c["op"].s() == "LagrAccum") sig += (c["signs"].i() & ((1ll << c["terms"].i(1)) - 1)) ? "/with-SubMul" : "/AddMul-only";
    std::string why;
    if (g_fork) {
        why = forked([&]() { return body(c, nullptr); });
        if (why.find("signal 6") != std::string::npos) sig = "c10/abort/" + c["op"].s() + (c["B"].i() >= 512 ? "/B>=512" : "/B<512");
    } else {
        double e = 0;
        why = body(c, &e);
        std::string key = "maxerr_units_" + c["op"].s() + "_B" + std::to_string(c["B"].i()) + (c["terms"].i(1) > 1 ? "_terms" + std::to_string(c["B"].i() > 32768 ? std::min<int64_t>(2, c["terms"].i()) : c["terms"].i()) : "");
        if (e > g_maxerr[key]) g_maxerr[key] = e;
    }
    return why;
}

static const char *OPS[] = {"MultFFT", "AddMulRFFT", "SubMulRFFT", "LagrMul", "RoundTrip", "LagrAddTo", "LagrClear", "LagrSetConst", "LagrAddConst", "LagrAccum"};

static J mk(const std::string &op, int64_t B, int ik, uint64_t is, int tk, uint64_t ts, int terms, int64_t signs, uint64_t cs, uint64_t mu) {
    J c = J::object();
    c.set("op", op).set("B", B).set("ikind", ik).set("iseed", is).set("tkind", tk).set("tseed", ts).set("terms", terms).set("signs", signs).set("cseed", cs).set("mu", mu);
    return c;
}

int main(int argc, char **argv) {
    Args A(argc, argv);
    Harness H(A, "c10");
    g_fork = A.i("fork", 0) != 0;
    H.run_case = run_case;
    H.nontrivial = [](const J &c) { return c["ikind"].i() != 0 || c["tkind"].i() != 0 || c["B"].i() >= 512; };
    H.classify = [](const J &c) { return c["op"].s() + (c["B"].i() > 512 ? "_bigB" : ""); };
    if (H.mode == "replay") return H.replay(A.s("replay"));
    if (H.mode == "grid") { // every (op, B, int shape, torus shape) combination once: the worst-case structured inputs
        uint64_t seed = A.u("seed", 1);
        for (const char *op : {"MultFFT", "AddMulRFFT", "SubMulRFFT", "LagrAccum"})
            for (int64_t B : {1ll, 64ll, 512ll, 32768ll, 1048576ll})
                for (int ik : {0, 1, 2, 3, 4, 5, 6, 8})
                    for (int tk : {0, 1, 2, 3, 5, 8}) {
                        int terms = std::string(op) == "LagrAccum" ? 4 : 1;
                        H.exec(mk(op, B, ik, seed + ik, tk, seed * 3 + tk, terms, 5, seed + 11, 0), false);
                        if (H.R.failure_count > 30) goto done;
                    }
        for (int tk : {0, 1, 2, 3, 4, 5, 6, 7, 8})
            for (const char *op : {"RoundTrip", "LagrAddTo", "LagrClear", "LagrSetConst", "LagrAddConst"})
                for (uint64_t mu : {0ull, 1ull, 0x7fffffffull, 0x80000000ull, 0xffffffffull, 0x12345678ull})
                    H.exec(mk(op, 1, 7, 0, tk, seed + tk, 1, 0, seed + 5, mu), false);
    done:
        for (auto &p : g_maxerr) H.R.stats[p.first] = p.second;
        return H.finish();
    }
    H.rc_loop("C10 FFT products within 2 units of the exact negacyclic product (linear above 2^9); transforms inverse; Lagrange ops commute", [&]() {
        std::string op = OPS[*rc::gen::weightedElement<int>({{4, 0}, {2, 1}, {2, 2}, {1, 3}, {2, 4}, {1, 5}, {1, 6}, {1, 7}, {1, 8}, {3, 9}})];
        int64_t B = *rc::gen::weightedElement<int64_t>({{2, 1}, {2, 64}, {5, 512}, {2, 32768}, {2, 1048576}, {1, 2}, {1, 100}, {1, 511}, {1, 513}, {1, 4096}});
        int ik = *rc::gen::weightedElement<int>({{4, 0}, {2, 1}, {2, 2}, {2, 3}, {2, 4}, {2, 5}, {1, 6}, {1, 8}});
        int tk = *rc::gen::weightedElement<int>({{4, 0}, {2, 1}, {2, 2}, {2, 3}, {2, 5}, {1, 6}, {1, 7}, {2, 8}});
        int terms = op == "LagrAccum" ? *rng<int>(1, 8) : 1;
        return mk(op, B, ik, *genSeed(), tk, *genSeed(), terms, *rng<int>(0, 255), *genSeed(), (uint64_t)*genU32());
    });
    for (auto &p : g_maxerr) H.R.stats[p.first] = p.second;
    return H.finish();
}
