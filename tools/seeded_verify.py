#!/usr/bin/env python3
"""Verify every seeded change under /verif/seeded/<ID>-<n>/ in a scratch worktree of /repo:
(1) the patch applies to HEAD, (2) the repository's unit tests still pass, (3) the author's demonstration
fails with the change and passes without it, (4) which of our checks flag it.  Results are merged into meta.json."""
import json, os, subprocess, sys, tempfile, shutil, time
V = os.path.dirname(os.path.dirname(os.path.abspath(__file__)))
EXTRA = {  # additional checks to try per seeded change (own property is always tried first)
    "C01-1": ["C02", "C07"], "C01-2": ["C15"], "C02-2": ["C07"], "C03-2": ["C13"], "C04-1": ["C13"], "C08-1": ["C14"], "C16-2": ["C17", "C07"], "C17-2": ["C07", "C16"], "C15-2": ["C12"], "C12-1": ["C09"],
    "C12-2": ["C09"], "C10-1": ["C09"], "C13-1": ["C04"], "C11-2": ["C14"], "C14-1": ["C08"], "C09-3": ["C06"], "C06-3": ["C08"], "C06-4": ["C04"], "C02-3": ["C15"], "C02-4": ["C07"], "C04-4": ["C14"], "C15-4": ["C16"], "C13-3": ["C06"], "C11-4": ["C06"], "C12-4": ["C06"], "C10-4": ["C06"], "C08-4": ["C06"], "C08-3": ["C16"], "C01-5": ["C06"], "C02-6": ["C06"], "C08-6": ["C06"], "C15-6": ["C14"], "C11-6": ["C06"], "C02-7": ["C12"],
}

def sh(cmd, **kw):
    return subprocess.run(cmd, stdout=subprocess.PIPE, stderr=subprocess.STDOUT, text=True, **kw)

def main():
    only = [a for a in sys.argv[1:] if not a.startswith("--")]
    demo_only = "--demo-only" in sys.argv  # re-run only the author's demonstration (keeps the other recorded results)
    for d in sorted(os.listdir(os.path.join(V, "seeded"))):
        if only and d not in only:
            continue
        sd = os.path.join(V, "seeded", d)
        pid = d.split("-")[0]
        patch = os.path.join(sd, "patch.rebased.diff") if os.path.exists(os.path.join(sd, "patch.rebased.diff")) else os.path.join(sd, "patch.diff")
        meta_p = os.path.join(sd, "meta.json")
        meta = json.load(open(meta_p)) if os.path.exists(meta_p) else {}
        old = meta.get("verification_by_verif_author", {})
        ver = {"at_repo_commit": sh(["git", "-C", "/repo", "log", "-1", "--format=%h"]).stdout.strip(), "patch_file": os.path.basename(patch)}
        W = tempfile.mkdtemp(prefix="sv.", dir="/tmp")
        wt = os.path.join(W, "tree")
        try:
            sh(["git", "-C", "/repo", "worktree", "add", "--detach", wt, "HEAD"])
            r = sh(["git", "-C", wt, "apply", patch])
            ver["applies"] = r.returncode == 0
            if r.returncode != 0:
                ver["note"] = r.stdout[-300:]
            else:
                if demo_only:
                    for k in ("unit_tests_pass", "unit_tests", "checks"):
                        if k in old:
                            ver[k] = old[k]
                else:
                    t = sh([os.path.join(V, "tools", "run_repo_tests.sh"), wt, "both"])
                    ver["unit_tests_pass"] = t.returncode == 0 and t.stdout.count("PASS") == 10
                    ver["unit_tests"] = "%d/10 PASS lines" % t.stdout.count("PASS")
                run = os.path.join(sd, "run.sh")
                if os.path.exists(run):
                    # some demonstrations create their private build directory under the author's scratch output directory: provide it
                    import re
                    scratch = sorted(set(re.findall(r"/tmp/wt\d+/[A-Za-z0-9]+-out", open(run).read())))
                    for d2 in scratch:
                        os.makedirs(d2, exist_ok=True)
                    a = sh(["bash", run, wt], timeout=1800, cwd=sd)
                    b = sh(["bash", run, "/repo"], timeout=1800, cwd=sd)
                    ver["demo_with_change_rc"] = a.returncode
                    ver["demo_without_change_rc"] = b.returncode
                    ver["demo_ok"] = a.returncode != 0 and b.returncode == 0
                    for d2 in scratch:
                        shutil.rmtree(d2, ignore_errors=True)
                        try:
                            os.rmdir(os.path.dirname(d2))
                        except OSError:
                            pass
                caught = {}
                for cid in ([] if demo_only else [pid] + EXTRA.get(d, [])):
                    env = dict(os.environ, VERIF_REPO=wt, VERIF_BUILD_ROOT=os.path.join(W, "build"), VERIF_EVIDENCE_DIR=os.path.join(W, "ev"), VERIF_FINDINGS_DIR=os.path.join(W, "findings"))
                    t0 = time.time()
                    c = sh([os.path.join(V, "check"), cid, "--tier", "quick"], env=env, cwd=V)
                    det = [l for l in c.stdout.splitlines() if "violation detail" in l]
                    caught[cid] = {"rc": c.returncode, "flagged": c.returncode == 1, "seconds": round(time.time() - t0), "first_detail": (det[0][:400] if det else "")}
                if not demo_only:
                    ver["checks"] = caught
        except Exception as e:
            ver["error"] = repr(e)
        finally:
            sh(["git", "-C", "/repo", "worktree", "remove", "--force", wt])
            shutil.rmtree(W, ignore_errors=True)
        meta["property"] = meta.get("property", pid)
        meta["verification_by_verif_author"] = ver
        json.dump(meta, open(meta_p, "w"), indent=1)
        print(d, json.dumps({k: v for k, v in ver.items() if k != "checks"}), {k: v["flagged"] for k, v in ver.get("checks", {}).items()}, flush=True)

if __name__ == "__main__":
    main()
