#!/bin/bash
# run every check's quick (or given tier) command sequentially; prints one line per property
TIER=${1:-quick}; cd "$(dirname "$(readlink -f "$0")")/.."
for id in C01 C02 C03 C04 C05 C06 C07 C08 C09 C10 C11 C12 C13 C14 C15 C16 C17 C18 C19 C20; do
  s=$(date +%s); ./check $id --tier $TIER > ${TMPDIR:-/tmp}/runall.$id.out 2> ${TMPDIR:-/tmp}/runall.$id.err; rc=$?; e=$(date +%s)
  echo "$id rc=$rc $((e-s))s $(grep -c VIOLATION ${TMPDIR:-/tmp}/runall.$id.out) violations"
done
