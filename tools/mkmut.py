#!/usr/bin/env python3
"""mkmut.py <out.diff> <repo-relative-file> <old> <new> [<file2> <old2> <new2> ...]
Builds a git-apply-able patch replacing the (unique) string <old> by <new>."""
import sys, subprocess, tempfile, os
out = sys.argv[1]; args = sys.argv[2:]
diff = ""
for k in range(0, len(args), 3):
    rel, old, new = args[k:k+3]
    src = open(os.path.join("/repo", rel)).read()
    old = old.encode().decode('unicode_escape'); new = new.encode().decode('unicode_escape')
    if src.count(old) != 1:
        sys.exit("pattern occurs %d times in %s" % (src.count(old), rel))
    with tempfile.NamedTemporaryFile("w", suffix=".new", delete=False) as f:
        f.write(src.replace(old, new)); tmp = f.name
    r = subprocess.run(["diff", "-u", "--label", "a/" + rel, "--label", "b/" + rel, os.path.join("/repo", rel), tmp], stdout=subprocess.PIPE, text=True)
    os.unlink(tmp)
    diff += r.stdout
os.makedirs(os.path.dirname(out), exist_ok=True)
open(out, "w").write(diff)
print(out, len(diff.splitlines()), "lines")
