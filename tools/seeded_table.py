#!/usr/bin/env python3
"""Fill the seeded-change table in DESIGN.md (between the markers) from seeded/*/meta.json."""
import json, os, re
V = os.path.dirname(os.path.dirname(os.path.abspath(__file__)))
rows = ["| change | what it does (author's summary, shortened) | needs to manifest | unit tests | demo fails/passes | flagged by (quick tier) |", "|---|---|---|---|---|---|"]
for d in sorted(os.listdir(os.path.join(V, "seeded"))):
    mp = os.path.join(V, "seeded", d, "meta.json")
    if d.startswith("_") or not os.path.exists(mp):
        continue
    m = json.load(open(mp))
    v = m.get("verification_by_verif_author", {})
    ch = v.get("checks", {})
    flagged = ", ".join("%s%s" % (k, "" if x["flagged"] else " (no)") for k, x in ch.items()) or "not run"
    clean = lambda s: re.sub(r"\s+", " ", str(s or "")).replace("|", "/")[:230]
    demo = "%s / %s" % ("fails" if v.get("demo_with_change_rc", 0) != 0 else "PASSES", "passes" if v.get("demo_without_change_rc", 1) == 0 else "FAILS") if "demo_with_change_rc" in v else "n/a"
    rows.append("| %s | %s | %s | %s | %s | %s |" % (d, clean(m.get("summary")), clean(m.get("needs_to_manifest")), v.get("unit_tests", "?"), demo, flagged))
s = open(os.path.join(V, "DESIGN.md")).read()
table = "<!-- SEEDED-TABLE-BEGIN -->\n" + "\n".join(rows) + "\n<!-- SEEDED-TABLE-END -->"
if "SEEDED_TABLE_PLACEHOLDER" in s:
    s = s.replace("SEEDED_TABLE_PLACEHOLDER", table)
else:
    s = re.sub(r"<!-- SEEDED-TABLE-BEGIN -->.*?<!-- SEEDED-TABLE-END -->", lambda _: table, s, flags=re.S)
open(os.path.join(V, "DESIGN.md"), "w").write(s)
print(len(rows) - 2, "rows")
