#!/bin/bash
# Run a check against a mutated copy of /repo without touching /repo:
#   tools/mutcheck.sh <patch.diff> <ID> [quick|thorough] [seed]
# prints the check's verdict lines; exit code = the check's exit code (1 = mutant caught).
P=$(readlink -f "$1"); ID=$2; TIER=${3:-quick}; SEED=${4:-1}
W=$(mktemp -d /tmp/mut.XXXXXX)
git -C /repo worktree add --detach "$W/src-tree" HEAD >/dev/null 2>&1 || exit 3
if ! git -C "$W/src-tree" apply "$P"; then echo "PATCH-DOES-NOT-APPLY"; git -C /repo worktree remove --force "$W/src-tree"; rm -rf "$W"; exit 3; fi
cd /verif
VERIF_REPO="$W/src-tree" VERIF_BUILD_ROOT="$W/build" VERIF_EVIDENCE_DIR="$W/ev" VERIF_FINDINGS_DIR="$W/findings" VERIF_SEED=$SEED \
  ./check "$ID" --tier "$TIER" > "$W/out.txt" 2> "$W/err.txt"
rc=$?
grep -E "VIOLATION|KNOWN-FINDING" "$W/out.txt" | head -5
grep -E "violation detail|harness error|Traceback|Error" "$W/err.txt" | head -8
echo "mutcheck: $ID $(basename $(dirname $P)) rc=$rc"
git -C /repo worktree remove --force "$W/src-tree"; rm -rf "$W"
exit $rc
