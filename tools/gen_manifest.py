#!/usr/bin/env python3
"""Regenerates /verif/MANIFEST.json from the table below (kept next to the code so the
manifest, the not_applicable list and the built checks cannot drift apart)."""
import json, os, subprocess
V = os.path.dirname(os.path.dirname(os.path.abspath(__file__)))

# id -> (category, engine, technique, level text, level note, design ref)
CHECKS = {
    "C13": ("exploration", "E2+E1+E4",
            "exhaustive enumeration of all 2^32 phases / all tie points for every M<=2^15 plus rapidcheck random (M,phase), oracle = 128-bit exact rounding relation",
            "Exhaustive over the listed moduli and over every tie/boundary phase of every M in [2,2^15] and every power of two up to 2^30; random generation only adds cases beyond that. For these pure functions that is a complete decision on the enumerated domain; outside it, sampled.",
            "Trusts the harness's 128-bit reference relation and that numeric-functions.cpp is compiled identically into all five back-end libraries (same object library).",
            "DESIGN.md §3 C13"),
    "C11": ("exploration", "E1+E2+E4",
            "rapidcheck over (operation, N, a, p, polynomial contents) with exact uint64 reference; exhaustive a in [0,2N) and bilinear basis table for small N; asan build for the memory side",
            "Random + boundary-biased generation over 24 operations and laws with an exact integer oracle, exhaustive over the monomial exponent for N<=256 (quick) / 2048 (thorough) and over the basis-pair table for N<=16.",
            "Trusts the harness reference (schoolbook with 64-bit accumulation). Contents for N>16 are shape descriptors expanded from a generated seed rather than independently generated coefficients.",
            "DESIGN.md §3 C11"),
    "C19": ("exploration", "E2+E3",
            "exhaustive enumeration of lambda in [-5,300] + extremes, one forked process per value (abort is the rejection contract), oracle = documented table + recomputed derived fields + noise-formula margin",
            "The input domain is a single integer; every value in [-5,300] and the 32-bit extremes are tried on several builds/back-ends, so the decision is complete on that range and every field of both sets is compared with the documented table.",
            "Trusts spec/paramsets.json (transcribed from README/CGGI tables) and the average-case noise formulas for the margin clause.",
            "DESIGN.md §3 C19"),
    "C12": ("exploration", "E2+E1+E4",
            "exhaustive sweep of all 2^32 coefficient values per gadget layout on AVX2 and scalar builds + rapidcheck over the layout grid with guard-page buffers + libFuzzer target on the scalar path; oracle = unique balanced-digit recomposition relation",
            "Exhaustive over all 32-bit values for the default layouts and a grid of others (incl. l*Bgbit=32, Bgbit=2); random/boundary generation for the remaining layouts, lane positions and the TLWE wrapper.",
            "N restricted to multiples of the vector width (the routine is only called with the ring degree). Out-of-bounds detection for the inline assembly rests on guard pages/canaries, which see page-crossing or slack writes only.",
            "DESIGN.md §3 C12"),
    "C03": ("exploration", "E1+E2",
            "rapidcheck encrypt/decrypt round trips over schemes, dimensions, message spaces (any integer up to 2^20, powers of two to 2^30), noise classes up to the 10-sigma maximum; exhaustive messages for Msize<=64",
            "Generated round trips with an exact equality oracle over all five back-ends and both builds; exhaustive over messages for small message spaces.",
            "N=1024 only for TLWE/TGSW (the back-ends instantiate no other degree); the maximal noise leaves a 10-sigma margin so a false alarm has probability ~1e-23 per sample.",
            "DESIGN.md §3 C03"),
    "C10": ("exploration", "E1+E2",
            "structured worst-case grid + rapidcheck over (operation, coefficient bound, integer shape, torus shape, accumulated terms) against an exact 64-bit schoolbook product, all five back-ends x both builds, forked cases on debug builds",
            "Every combination of operation, magnitude and structured shape is enumerated on every back-end and build; random seeds and accumulation lengths are generated. Errors are compared with the property's own bound.",
            "Ring degree 1024 only. Worst observed errors are reported so the distance to the bound is visible.",
            "DESIGN.md §3 C10"),
    "C14": ("exploration", "E1+E2+E4",
            "rapidcheck over LWE/TLWE linear operations with exact integer phase oracle, guard-page mask buffers and forked cases; exhaustive n grid and exhaustive extraction index",
            "Generated operations, dimensions (every n in 1..40 and the listed large ones), scalars incl. INT32_MIN, keys and contents with an exact phase-linearity oracle; exhaustive over the extraction index for every power-of-two N<=1024 and k<=3.",
            "Guard pages detect out-of-bounds accesses of the inline assembly only when they leave the array into the slack or the adjacent page.",
            "DESIGN.md §3 C14"),
    "C08": ("exploration", "E2+E1+E5+E4",
            "exhaustive sweep of all 2^32 mask values on a harness-built noise-free key-switching key + rapidcheck over layouts/dimensions/boundary masks with an exact phase identity (also on library-generated noisy keys: every row must encrypt its message h*s_i*base^-(j+1) within 9 alpha, then its measured error enters the identity) + libFuzzer target with explicit mask words on noise-free keys + z=6 moment tests over >=2e4 (quick) / >=1e5 (thorough) real-key samples",
            "Exhaustive over a mask coefficient for the default layout (quick) and ten layouts (thorough); generated layouts, dimension pairs (incl. 1 and non-multiples of 8) and boundary masks with an exact-identity oracle, so no tolerance is involved except in the summary statistics.",
            "Noise-free rows are written through the public structure by the harness. The unbiasedness clause is checked as the exact sum over the exhaustive sweep.",
            "DESIGN.md §3 C08"),
    "C01": ("exploration", "E1",
            "rapidcheck over (parameter set, key seed, gate, plaintext tuple, input provenance incl. chained and secret-key-forged inputs at the admissible noise limit) + deterministic gate x row x provenance table on all five back-ends and both builds; oracle = truth table, 3/64 phase band, sign predicted from the harness-computed rounded phase",
            "Generated and tabulated gate evaluations on real keys with adversarially noisy admissible inputs; every gate x truth-table row x {fresh, chained, forged-max} is executed in every configuration (coverage floor enforced).",
            "Forged inputs are produced with the secret key by shifting b; admissibility (|phase error| <= 1/32) is self-checked. No statistical assertion.",
            "DESIGN.md §3 C01"),
    "C02": ("exploration", "E1+E5",
            "model-based netlist generation (rapidcheck, structured families, every subsequence valid) checked against a plaintext interpreter after every step + one-sided z=6 tests of pooled / per-key / per-input-class phase-error statistics against the property's bounds",
            "Random and structured circuits (chains to depth 300 quick / 5000 thorough, trees, fan-out, in-place accumulators, adders, comparators, MUX trees, maximally noisy inputs) with a plaintext model as oracle, and >= 2e4 (quick) / >= 1e5 (thorough) measured gate outputs for the noise clause.",
            "Statistical tests accept with probability > 1 - 1e-9 per statistic whenever the true moments respect the stated bounds; power depends on sample size (see DESIGN.md).",
            "DESIGN.md §3 C02"),
    "C04": ("exploration", "E2+E1",
            "exhaustive sweep of all 2N rounded phases with both rounding edges on noise-free key sets and the default noisy key set + rapidcheck over key-set menu (n up to 1100 > N, k in {1,2}, gadget/key-switch layouts), inputs, output messages and test polynomials; oracle = harness-computed rounded phase and analytic tolerance",
            "All 2N values of p (bucket centre, tie-1, tie, tie+1, targeted random mask) for four bootstrap variants; generated inputs/test polynomials/exponent vectors for blind-rotate-and-extract; AddressSanitizer build for the n > N scratch array.",
            "Tolerances are analytic (gadget truncation, key-switch rounding, 12 x noise bound); cases whose tolerance exceeds 1/16 are counted and not asserted.",
            "DESIGN.md §3 C04"),
    "C09": ("exploration", "E1",
            "rapidcheck over external-product variants, gadget grid, messages, exact (harness-built) and library-encrypted TGSW rows, extreme TLWE inputs and blind rotations; oracle A = exact sum_p dec_p*row_p per coefficient, oracle B = phase semantics with exact truncation terms and measured row errors (each bounded by 9 alpha around the gadget message)",
            "Generated cases against exact 64-bit integer references with analytic tolerances (FFT rounding only) on every back-end and build; noisy rows are handled as an exact identity by measuring their errors first.",
            "Ring degree 1024 only; blind rotations use key sets with library rows of sigma ~ 0 (error +-1 unit per row coefficient, included in the tolerance).",
            "DESIGN.md §3 C09"),
    "C15": ("exploration", "E1+E2",
            "before/after snapshots of all input objects and key material, metamorphic RNG probe through the API, and aliased-vs-copy byte comparison, with inputs also placed on exact rounding ties; rapidcheck over functions/patterns plus a full gate x aliasing-pattern table",
            "Every gate with every applicable aliasing pattern is executed on every back-end; low-level evaluation functions run on generated small key sets with complete key snapshots.",
            "Snapshots are 64-bit hashes of the arrays (collision probability negligible).",
            "DESIGN.md §3 C15"),
    "C05": ("exploration", "E1",
            "rapidcheck over sequences of 1..6 objects of the 14 exportable types written back-to-back into one stream, both transports in both directions (memory and real files, arrays on both sides of the stdio buffer size); oracle = field equality (== on doubles), exact consumption, byte-identical re-export, functional equivalence of re-imported cloud/secret keys",
            "Generated object histories with full-precision real parameters and extreme contents, plus both default parameter sets and default-size key sets on every back-end.",
            "Objects are constructed through public constructors/fields; cloud and secret key sets use N=1024 (the importer rebuilds the FFT key).",
            "DESIGN.md §3 C05"),
    "C17": ("exploration", "E1",
            "rapidcheck over key seeds, small custom and default parameter sets, transports and export histories; oracle = size formula (text lengths via the API), strict-prefix relation with the secret export, rolling-hash substring search for key material in raw/window/packed encodings, zero-mask row rule, exact consumption and identical re-export on import",
            "Generated key sets and export histories on real keys, including both default sets (110 MB exports) on both transports.",
            "Substring search covers the encodings listed in the rule; size formula recomputed from the returned parameters.",
            "DESIGN.md §3 C17"),
    "C18": ("fault_enumeration", "E3+E2",
            "fork-per-case fault enumeration: every truncation offset, every A-into-B substitution, every single-byte title/tag corruption, both transports, sanitizer build; oracle = exit status / terminating signal / stream state / equality with the intact import",
            "Exhaustive over byte offsets and tag/title bytes for small-parameter instances of all 14 types (thorough: also every offset of the 33 KB key sets and five more generated instances).",
            "The accepted behaviour is process termination, so each fault runs in its own child; NULL-dereference on a missing text section is the documented outcome and is accepted (address checked).",
            "DESIGN.md §3 C18"),
    "C07": ("exploration", "E5+E1",
            "seeded sample sets of exact errors (fresh LWE/TLWE/TGSW/gate ciphertexts, every key-switching and bootstrapping key row) tested at 8 estimator standard deviations against the implemented discretised Gaussian law; chi-square / correlation tests of masks; rapidcheck metamorphic seeding property over generated histories",
            "Statistical decision with two-sided 8-sigma regions (lower bound included: zero or halved noise fails) for every noise level 2^-5..2^-30 and both default key sets; generated re-seeding histories for the randomness-source clause.",
            "Acceptance regions are centred on the sampler law actually implemented (truncation toward zero), computed numerically by the driver; a false alarm has probability < 1e-14 per statistic.",
            "DESIGN.md §3 C07"),
    "C06": ("exploration", "E1",
            "rapidcheck over concurrent workloads (1..64 threads, per-thread histories incl. heap churn, respawn, bursts of short-lived threads, key-generation thread, keys made by exited helper threads) with a byte-for-byte differential against references computed by fresh single-operation threads of freshly forked processes; ThreadSanitizer build of the same workloads",
            "Sampled schedules under oversubscription on all five back-ends; any shared mutable FFT state or leftover scratch content changes output bytes, which the differential sees regardless of the assembly.",
            "Interleavings are sampled, not controlled; TSan sees only the C/C++ parts. A mismatch is reported even if a replay passes (it cannot occur without shared mutable state).",
            "DESIGN.md §3 C06"),
    "C16": ("exploration", "E1",
            "rapidcheck state-machine lifecycles (configuration matrix x generated API call sequences with a liveness model) under AddressSanitizer/LeakSanitizer with a per-lifecycle leak check in a forked child, a two-fill-byte differential of all outputs, and valgrind memcheck for the assembly back-ends",
            "Generated configurations incl. n<8, n>N, k=2 and extreme gadget/key-switch layouts, with lifecycles covering encrypt, gates, bootstraps, export/import, thread exit and deletion orders, on all five back-ends.",
            "MSan is unusable here; uninitialised reads are covered by valgrind (bounded) and the fill-byte differential. LeakSanitizer treats objects kept by the library's global collector as reachable (not leaks).",
            "DESIGN.md §3 C16"),
    "C20": ("exploration", "E2+E1",
            "differential enumeration over 10 library variants x EXPORT-declared names (nm), public headers x {C99, C++11} (compile alone), public structures x fields (gdb ptype /o on a C and a C++ object), plus seeded generation of gate-API programs rendered as C and as C++ and run against every variant",
            "Parts (a)-(c) enumerate the finite configuration set completely (409 names, 19 headers, 20 structures / 81 fields today); part (d) generates programs and compares C vs C++ renderings and all variants against a plaintext model.",
            "x86-64 SysV ABI with the installed gcc; undeclared back-end-internal symbols are listed but deliberately not compared. Program generation is seeded (python random) with removal-based minimisation rather than a PBT library.",
            "DESIGN.md §3 C20"),
}

ALL = ["C%02d" % k for k in range(1, 21)]
PENDING_REASON = "check not built yet in this revision of /verif (planned in DESIGN.md §3; the technique applies)"


def main():
    hooks_commits = []
    man = {
        "version": 1,
        "setup_cmd": "python3 tools/setup.py",
        "hooks": {
            "guard": "TFHE_VERIF",
            "enable": "checks build /repo/src with -DTFHE_VERIF in the sanitizer/valgrind/fuzz configurations (vlib/build.py); no guarded code exists in the tree, so the define is inert",
            "baseline_off_cmd": "tools/run_repo_tests.sh /repo both",
            "source_commits": hooks_commits,
            "add_only": True,
        },
        "engines": [
            {"name": "E1-rapidcheck", "path": "harness/", "kind_free_text": "rapidcheck properties over generated case descriptors; shrunk case becomes the replay file",
             "serves_properties": sorted(k for k, v in CHECKS.items() if "E1" in v[1])},
            {"name": "E2-enumerators", "path": "harness/", "kind_free_text": "exhaustive / boundary enumeration split over 16 processes",
             "serves_properties": sorted(k for k, v in CHECKS.items() if "E2" in v[1])},
            {"name": "E3-fork-per-case", "path": "harness/", "kind_free_text": "fork-per-case fault injection; oracle reads exit status/signal",
             "serves_properties": sorted(k for k, v in CHECKS.items() if "E3" in v[1])},
            {"name": "E4-libFuzzer", "path": "harness/fuzz/", "kind_free_text": "coverage-guided fuzz targets with in-target semantic oracle",
             "serves_properties": sorted(k for k, v in CHECKS.items() if "E4" in v[1])},
            {"name": "E5-statistical", "path": "harness/", "kind_free_text": "seeded sample sets with z-sigma acceptance regions",
             "serves_properties": sorted(k for k, v in CHECKS.items() if "E5" in v[1])},
        ],
        "checks": [],
        "not_applicable": [],
        "notes": "Driver: ./check <ID> [--tier quick|thorough] [--replay FILE]; honours VERIF_SEED and VERIF_TIER. Exit 2 = harness problem (never a verdict). Known findings: known_findings.json.",
    }
    for pid in ALL:
        if pid in CHECKS:
            cat, eng, tech, text, note, ref = CHECKS[pid]
            man["checks"].append({
                "property_id": pid,
                "quick_cmd": "./check %s --tier quick" % pid,
                "thorough_cmd": "./check %s --tier thorough" % pid,
                "evidence_file": "evidence/%s.json" % pid,
                "replay_cmd_template": "./check %s --replay {path}" % pid,
                "engine": eng,
                "level_claimed": {"category": cat, "text": text, "design_ref": ref},
                "level_note": note,
                "technique": tech,
            })
        else:
            man["not_applicable"].append({"property_id": pid, "reason": PENDING_REASON})
    with open(os.path.join(V, "MANIFEST.json"), "w") as fh:
        json.dump(man, fh, indent=1)
    print("MANIFEST.json: %d checks, %d not_applicable" % (len(man["checks"]), len(man["not_applicable"])))


if __name__ == "__main__":
    main()
