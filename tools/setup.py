#!/usr/bin/env python3
"""Offline setup: build every library configuration from /repo's working tree and
pre-compile the harnesses each check uses (all cached by content hash under .build/)."""
import sys, os, importlib, glob
from concurrent.futures import ThreadPoolExecutor
V = os.path.dirname(os.path.dirname(os.path.abspath(__file__)))
sys.path.insert(0, V)
os.chdir(V)
from vlib import build

def main():
    with ThreadPoolExecutor(max_workers=4) as ex:
        list(ex.map(build.ensure, list(build.CONFIGS)))
    todo = set()
    for f in sorted(glob.glob(os.path.join(V, "vlib", "props", "C*.py"))):
        m = importlib.import_module("vlib.props." + os.path.basename(f)[:-3])
        for t in getattr(m, "PREBUILD", []):
            todo.add(tuple(t))
    # compile objects first (one per harness/config), then link per backend
    firsts = {}
    for t in sorted(todo):
        firsts.setdefault((t[0], t[1]), t)
    def comp(t):
        try:
            build.compile_harness(t[0], t[1], t[2])
            return None
        except Exception as e:
            return "%s: %s" % (t, e)
    with ThreadPoolExecutor(max_workers=os.cpu_count() or 8) as ex:
        errs = [e for e in ex.map(comp, list(firsts.values())) if e]
        errs += [e for e in ex.map(comp, sorted(todo)) if e]
    for t in ("fz_c08", "fz_c11", "fz_c12", "fz_c13", "fz_c14"):
        try:
            build.compile_fuzz_target(t)
        except Exception as e:
            errs.append("%s: %s" % (t, e))
    for e in errs:
        print("setup error:", e, file=sys.stderr)
    print("setup: %d library configs, %d harness executables" % (len(build.CONFIGS), len(todo)))
    return 1 if errs else 0

if __name__ == "__main__":
    sys.exit(main())
