#!/bin/bash
# Build a tfhe source tree (default /repo) with the project's test options in a scratch
# directory and run the 5 registered unit-test binaries for both project build types.
# usage: run_repo_tests.sh [SRC_ROOT] [optim|debug|both]   -> prints PASS/FAIL summary, exit 0 iff all pass
SRC=${1:-/repo}; WHICH=${2:-both}
[ -e "$SRC/src/test/googletest/CMakeLists.txt" ] || { rmdir "$SRC/src/test/googletest" 2>/dev/null; ln -s /repo/src/test/googletest "$SRC/src/test/googletest"; LINKED=1; }
OUT=$(mktemp -d /tmp/tfhe-tests.XXXXXX); rc=0
types="optim debug"; [ "$WHICH" != both ] && types=$WHICH
for bt in $types; do
  cmake -S "$SRC/src" -B "$OUT/$bt" -G Ninja -DCMAKE_BUILD_TYPE=$bt -DENABLE_TESTS=on -DENABLE_FFTW=on \
     -DENABLE_NAYUKI_PORTABLE=on -DENABLE_NAYUKI_AVX=on -DENABLE_SPQLIOS_AVX=on -DENABLE_SPQLIOS_FMA=on >"$OUT/$bt.cfg.log" 2>&1 || { echo "CONFIGURE-FAIL $bt"; rc=2; continue; }
  ninja -C "$OUT/$bt" -j16 >"$OUT/$bt.build.log" 2>&1 || { echo "BUILD-FAIL $bt"; tail -30 "$OUT/$bt.build.log"; rc=2; continue; }
  for be in spqlios-fma spqlios-avx nayuki-portable nayuki-avx fftw; do
    if timeout 1800 "$OUT/$bt/test/unittests-$be" >"$OUT/$bt-$be.log" 2>&1; then
      echo "PASS $bt $be $(grep -c '^\[       OK' "$OUT/$bt-$be.log") tests"
    else
      echo "FAIL $bt $be"; grep -E 'FAILED|Failure' "$OUT/$bt-$be.log" | head -10; rc=1
    fi
  done
done
[ -n "$LINKED" ] && rm -f "$SRC/src/test/googletest"
rm -rf "$OUT"
exit $rc
