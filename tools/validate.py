#!/usr/bin/env python3-vt
import json, jsonschema, glob, sys, os
V = os.path.dirname(os.path.dirname(os.path.abspath(__file__)))
jsonschema.validate(json.load(open(V + '/MANIFEST.json')), json.load(open('/root/.vp/MANIFEST.schema.json')))
print('manifest ok')
sch = json.load(open('/root/.vp/EVIDENCE.schema.json'))
for f in sorted(glob.glob(V + '/evidence/*.json')):
    e = json.load(open(f))
    jsonschema.validate(e, sch)
    c = e['coverage']
    print('%s ok tier=%s wall=%.0fs evals=%d nontrivial=%d violations=%s' % (os.path.basename(f), e['tier'], e['wall_s'], c.get('evaluations', 0), c.get('distinct_nontrivial', 0), e.get('violations')))
